// C07 driver for the real-valued element-wise functions (math ufuncs and activations).  TLC cannot evaluate sin or exp, so
// the scalar function stays uninterpreted in the specification: next to the result the driver logs the function's table
// on the operand values (args.tab), computed here directly with the C++ math library / the PyTorch formula - independently
// of the library's functor - and the specification decides   result[i] = tab[a[i']] (, b[i''])   under broadcasting.
//   mode "exact":  values travel as IEEE bit-pattern tokens and must be equal (functions that are one libm call)
//   mode "approx": values travel as round(v * 2^20) and must agree within args.tol (formulas whose evaluation order may differ)
// Operand values are k / den for integer k (args.den), in float or double (args.dtype).
#include "verif/driver.hpp"
#include "verif/arrays.hpp"
#include "nmtools/array/view/ufuncs/sin.hpp"
#include "nmtools/array/view/ufuncs/cos.hpp"
#include "nmtools/array/view/ufuncs/tan.hpp"
#include "nmtools/array/view/ufuncs/arcsin.hpp"
#include "nmtools/array/view/ufuncs/arccos.hpp"
#include "nmtools/array/view/ufuncs/arctan.hpp"
#include "nmtools/array/view/ufuncs/sinh.hpp"
#include "nmtools/array/view/ufuncs/cosh.hpp"
#include "nmtools/array/view/ufuncs/tanh.hpp"
#include "nmtools/array/view/ufuncs/arcsinh.hpp"
#include "nmtools/array/view/ufuncs/arccosh.hpp"
#include "nmtools/array/view/ufuncs/arctanh.hpp"
#include "nmtools/array/view/ufuncs/exp.hpp"
#include "nmtools/array/view/ufuncs/exp2.hpp"
#include "nmtools/array/view/ufuncs/expm1.hpp"
#include "nmtools/array/view/ufuncs/log.hpp"
#include "nmtools/array/view/ufuncs/log2.hpp"
#include "nmtools/array/view/ufuncs/log10.hpp"
#include "nmtools/array/view/ufuncs/log1p.hpp"
#include "nmtools/array/view/ufuncs/sqrt.hpp"
#include "nmtools/array/view/ufuncs/cbrt.hpp"
#include "nmtools/array/view/ufuncs/ceil.hpp"
#include "nmtools/array/view/ufuncs/floor.hpp"
#include "nmtools/array/view/ufuncs/trunc.hpp"
#include "nmtools/array/view/ufuncs/rint.hpp"
#include "nmtools/array/view/ufuncs/fabs.hpp"
#include "nmtools/array/view/ufuncs/reciprocal.hpp"
#include "nmtools/array/view/ufuncs/square.hpp"
#include "nmtools/array/view/ufuncs/negative.hpp"
#include "nmtools/array/view/ufuncs/positive.hpp"
#include "nmtools/array/view/ufuncs/isfinite.hpp"
#include "nmtools/array/view/ufuncs/isinf.hpp"
#include "nmtools/array/view/ufuncs/isnan.hpp"
#include "nmtools/array/view/ufuncs/signbit.hpp"
#include "nmtools/array/view/ufuncs/deg2rad.hpp"
#include "nmtools/array/view/ufuncs/rad2deg.hpp"
#include "nmtools/array/view/ufuncs/radians.hpp"
#include "nmtools/array/view/ufuncs/degrees.hpp"
#include "nmtools/array/view/ufuncs/arctan2.hpp"
#include "nmtools/array/view/ufuncs/hypot.hpp"
#include "nmtools/array/view/ufuncs/power.hpp"
#include "nmtools/array/view/ufuncs/fmod.hpp"
#include "nmtools/array/view/ufuncs/fmin.hpp"
#include "nmtools/array/view/ufuncs/fmax.hpp"
#include "nmtools/array/view/ufuncs/maximum.hpp"
#include "nmtools/array/view/ufuncs/minimum.hpp"
#include "nmtools/array/view/ufuncs/add.hpp"
#include "nmtools/array/view/ufuncs/subtract.hpp"
#include "nmtools/array/view/ufuncs/multiply.hpp"
#include "nmtools/array/view/ufuncs/divide.hpp"
#include "nmtools/array/view/ufuncs/ldexp.hpp"
#include "nmtools/array/view/activations/celu.hpp"
#include "nmtools/array/view/activations/elu.hpp"
#include "nmtools/array/view/activations/hardshrink.hpp"
#include "nmtools/array/view/activations/hardswish.hpp"
#include "nmtools/array/view/activations/hardtanh.hpp"
#include "nmtools/array/view/activations/leaky_relu.hpp"
#include "nmtools/array/view/activations/log_sigmoid.hpp"
#include "nmtools/array/view/activations/mish.hpp"
#include "nmtools/array/view/activations/prelu.hpp"
#include "nmtools/array/view/activations/relu.hpp"
#include "nmtools/array/view/activations/relu6.hpp"
#include "nmtools/array/view/activations/selu.hpp"
#include "nmtools/array/view/activations/sigmoid.hpp"
#include "nmtools/array/view/activations/silu.hpp"
#include "nmtools/array/view/activations/softplus.hpp"
#include "nmtools/array/view/activations/softshrink.hpp"
#include "nmtools/array/view/activations/softsign.hpp"
#include "nmtools/array/view/activations/tanhshrink.hpp"
#include <cmath>
#include <cstring>
#include <map>

using namespace verif;
namespace view = nmtools::view;

template <class T> static std::string bits(T x) {
    char buf[32];
    if constexpr (std::is_same_v<T, bool>) { snprintf(buf, sizeof buf, "b%d", x ? 1 : 0); }
    else if constexpr (sizeof(T) == 4) { uint32_t u; std::memcpy(&u, &x, 4); snprintf(buf, sizeof buf, "x%08x", u); }
    else { uint64_t u; std::memcpy(&u, &x, 8); snprintf(buf, sizeof buf, "x%016llx", (unsigned long long)u); }
    return buf;
}
static bool g_exact;
template <class R> static vj::value val(R x) {
    if constexpr (std::is_same_v<R, bool>) return vj::value(std::string(x ? "b1" : "b0"));
    else if (g_exact) return vj::value(bits(x));
    else { double d = (double)x; if (!(d == d) || std::fabs(d) > 1e9) return vj::value(std::string("nan-or-huge")); return vj::value((long long)std::llround(d * 1048576.0)); }
}
// result of a view: shape + element values in the mode's representation (element type as the view yields it)
template <class V> static vj::value proj(const V& v) {
    if constexpr (meta::is_maybe_v<V>) { if (!static_cast<bool>(v)) return nothing_res(); return proj(*v); }
    else {
        using E = meta::get_element_type_t<V>;
        vj::value el = vj::value::array(); std::vector<long> shp;
        if constexpr (meta::is_num_v<V>) el.push(val((E)v));
        else {
            shp = shape_vec(nm::shape(v)); std::vector<size_t> s(shp.begin(), shp.end());
            size_t n = 1; for (auto x : s) n *= x;
            auto nd = nm::index::ndindex(s); for (size_t i = 0; i < n; i++) el.push(val((E)nm::apply_at(v, nd[i])));
        }
        vj::value r = vj::value::object(); r.set("ok", true).set("crash", "").set("shape", vj::value(shp)).set("elems", el);
        r.set("etype", std::is_same_v<E, bool> ? "bool" : (std::is_same_v<E, float> ? "float" : (std::is_same_v<E, double> ? "double" : "other")));
        return r;
    }
}
template <class T> static dyn_t<T> fop(const vj::value& c, size_t j, long den) {
    auto shp = c["shapes"][j].as_vec<long>(); auto k = c["data"][j].as_vec<long>();
    std::vector<T> d; for (auto x : k) d.push_back((T)x / (T)den);
    return make_data<T>(shp, d);
}

template <class T> static vj::value run(const vj::value& c) {
    const std::string name = c["args"]["name"].as_str();
    long den = c["args"]["den"].as_int();
    g_exact = c["args"]["mode"].as_str() == "exact";
    size_t nops = c["shapes"].size();
    vj::value out = c;                       // the event: the case plus the table and the result
    vj::value tab = vj::value::array();
    std::vector<long> ka = c["data"][0].as_vec<long>(), kb; if (nops > 1) kb = c["data"][1].as_vec<long>();
    auto T1 = [&](auto f) { std::map<long, bool> seen; for (long k : ka) if (!seen[k]) { seen[k] = true; vj::value r = vj::value::object(); r.set("k", k).set("v", val(f((T)k / (T)den))); tab.push(r); } };
    auto T2 = [&](auto f, bool int_b) { std::map<std::pair<long, long>, bool> seen; for (long x : ka) for (long y : kb) if (!seen[{x, y}]) { seen[{x, y}] = true;
        vj::value r = vj::value::object(); r.set("k", x).set("j", y).set("v", int_b ? val(f((T)x / (T)den, (T)y)) : val(f((T)x / (T)den, (T)y / (T)den))); tab.push(r); } };
    vj::value res; bool found = false;
    auto a = fop<T>(c, 0, den);
    // ---- unary: one libm call (exact)
    #define U1(NM, EXPR) if (!found && name == #NM) { found = true; T1([](T x) { return EXPR; }); res = proj(view::NM(a)); }
    U1(sin, std::sin(x)) U1(cos, std::cos(x)) U1(tan, std::tan(x)) U1(arcsin, std::asin(x)) U1(arccos, std::acos(x)) U1(arctan, std::atan(x))
    U1(sinh, std::sinh(x)) U1(cosh, std::cosh(x)) U1(tanh, std::tanh(x)) U1(arcsinh, std::asinh(x)) U1(arccosh, std::acosh(x)) U1(arctanh, std::atanh(x))
    U1(exp, std::exp(x)) U1(exp2, std::exp2(x)) U1(expm1, std::expm1(x)) U1(log, std::log(x)) U1(log2, std::log2(x)) U1(log10, std::log10(x)) U1(log1p, std::log1p(x))
    U1(sqrt, std::sqrt(x)) U1(cbrt, std::cbrt(x)) U1(ceil, std::ceil(x)) U1(floor, std::floor(x)) U1(trunc, std::trunc(x)) U1(rint, std::rint(x)) U1(fabs, std::fabs(x))
    U1(reciprocal, (T)1 / x) U1(square, x * x) U1(negative, -x) U1(positive, +x)
    U1(isfinite, (bool)std::isfinite(x)) U1(isinf, (bool)std::isinf(x)) U1(isnan, (bool)std::isnan(x)) U1(signbit, (bool)std::signbit(x))
    // ---- unary formulas (approx)
    U1(deg2rad, x * (T)3.14159265358979323846 / (T)180) U1(radians, x * (T)3.14159265358979323846 / (T)180)
    U1(rad2deg, x * (T)180 / (T)3.14159265358979323846) U1(degrees, x * (T)180 / (T)3.14159265358979323846)
    U1(relu, x > 0 ? x : (T)0) U1(relu6, x < 0 ? (T)0 : (x > 6 ? (T)6 : x))
    U1(sigmoid, (T)1 / ((T)1 + std::exp(-x))) U1(silu, x / ((T)1 + std::exp(-x))) U1(log_sigmoid, -std::log1p(std::exp(-x)))
    U1(softsign, x / ((T)1 + std::fabs(x))) U1(tanhshrink, x - std::tanh(x)) U1(mish, x * std::tanh(std::log1p(std::exp(x))))
    U1(hardswish, x <= -3 ? (T)0 : (x >= 3 ? x : x * (x + 3) / 6))
    U1(selu, (T)1.0507009873554804934193349852946 * (x > 0 ? x : (T)1.6732632423543772848170429916717 * (std::exp(x) - 1)))
    // ---- unary with parameters: args.p (default when absent)
    auto P = [&](size_t i, double dflt) { return c["args"].has("p") && c["args"]["p"].size() > i ? c["args"]["p"][i].as_dbl() : dflt; };
    bool hasp = c["args"].has("p") && c["args"]["p"].size() > 0;
    #define UP1(NM, DFLT, EXPR) if (!found && name == #NM) { found = true; T p = (T)P(0, DFLT); T1([p](T x) { return EXPR; }); if (hasp) res = proj(view::NM(a, p)); else res = proj(view::NM(a)); }
    UP1(elu, 1.0, x > 0 ? x : p * (std::exp(x) - 1)) UP1(celu, 1.0, std::max((T)0, x) + std::min((T)0, p * (std::exp(x / p) - 1)))
    UP1(leaky_relu, 0.01, x >= 0 ? x : p * x) UP1(prelu, 0.25, x >= 0 ? x : p * x)
    UP1(hardshrink, 0.5, (x > p || x < -p) ? x : (T)0) UP1(softshrink, 0.5, x > p ? x - p : (x < -p ? x + p : (T)0))
    if (!found && name == "hardtanh") { found = true; T lo = (T)P(0, -1.0), hi = (T)P(1, 1.0); T1([lo, hi](T x) { return x < lo ? lo : (x > hi ? hi : x); }); if (hasp) res = proj(view::hardtanh(a, lo, hi)); else res = proj(view::hardtanh(a)); }
    if (!found && name == "softplus") { found = true; T beta = (T)P(0, 1.0), th = (T)P(1, 20.0); T1([beta, th](T x) { return x * beta > th ? x : std::log1p(std::exp(beta * x)) / beta; }); if (hasp) res = proj(view::softplus(a, beta, th)); else res = proj(view::softplus(a)); }
    // ---- binary
    if (!found && nops > 1) {
        #define B2(NM, EXPR) if (!found && name == #NM) { found = true; auto b = fop<T>(c, 1, den); T2([](T x, T y) { return EXPR; }, false); res = proj(view::NM(a, b)); }
        B2(arctan2, std::atan2(x, y)) B2(hypot, std::hypot(x, y)) B2(power, std::pow(x, y)) B2(fmod, std::fmod(x, y)) B2(fmin, std::fmin(x, y)) B2(fmax, std::fmax(x, y))
        B2(maximum, x > y ? x : y) B2(minimum, x < y ? x : y) B2(add, x + y) B2(subtract, x - y) B2(multiply, x * y) B2(divide, x / y)
        if (!found && name == "ldexp") { found = true; auto shp = c["shapes"][1].as_vec<long>(); std::vector<int> e; for (auto y : kb) e.push_back((int)y);
            auto b = make_data<int>(shp, e); T2([](T x, T y) { return std::ldexp(x, (int)y); }, true); res = proj(view::ldexp(a, b)); }
    }
    if (!found) return crash_res("driver:unknown function " + name);
    vj::value args = c["args"]; args.set("tab", tab); out.set("args", args).set("res", res);
    vj::value evs = vj::value::array(); evs.push(out);
    vj::value r = vj::value::object(); r.set("__events", evs); return r;
}
static vj::value handle(const vj::value& c) {
    if (c["args"]["dtype"].as_str() == "float") return run<float>(c);
    return run<double>(c);
}
int main(int argc, char** argv) { return run_driver(argc, argv, handle); }
