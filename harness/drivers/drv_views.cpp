// C03 driver: rearranging views on dynamic arrays with run-time arguments.
#include "verif/driver.hpp"
#include "verif/arrays.hpp"
#include "nmtools/array/view/reshape.hpp"
#include "nmtools/array/view/flatten.hpp"
#include "nmtools/array/view/transpose.hpp"
#include "nmtools/array/view/moveaxis.hpp"
#include "nmtools/array/view/swapaxes.hpp"
#include "nmtools/array/view/expand_dims.hpp"
#include "nmtools/array/view/squeeze.hpp"
#include "nmtools/array/view/atleast_nd.hpp"
#include "nmtools/array/view/flip.hpp"

using namespace verif;
namespace view = nmtools::view;

static vj::value handle(const vj::value& c) {
    const std::string op = c["op"].as_str();
    const auto& args = c["args"];
    auto shp = c["shapes"][0].as_vec<long>();
    if (shp.size() == 0) {
        // zero-dimensional source: a scalar operand
        long a = 1;
        if (op == "flatten") return project(view::flatten(a));
        if (op == "atleast_nd") { long nd = args["nd"].as_int(); if (nd == 1) return project(view::atleast_1d(a)); if (nd == 2) return project(view::atleast_2d(a)); }
        return crash_res("unsupported op for 0-dim: " + op);
    }
    auto a = make_leaf<long>(shp, 0);
    if (op == "reshape") return project(view::reshape(a, args["dst"].as_vec<int>()));
    if (op == "flatten") return project(view::flatten(a));
    if (op == "transpose") {
        if (args["axes"].size() == 0) return project(view::transpose(a, nm::None));
        return project(view::transpose(a, args["axes"][0].as_vec<int>()));
    }
    if (op == "moveaxis") {
        if (args["int"].as_bool()) return project(view::moveaxis(a, (int)args["src"][0].as_int(), (int)args["dst"][0].as_int()));
        return project(view::moveaxis(a, args["src"].as_vec<int>(), args["dst"].as_vec<int>()));
    }
    if (op == "swapaxes") return project(view::swapaxes(a, (int)args["a1"].as_int(), (int)args["a2"].as_int()));
    if (op == "expand_dims") {
        if (args["int"].as_bool()) return project(view::expand_dims(a, (int)args["axis"][0].as_int()));
        return project(view::expand_dims(a, args["axis"].as_vec<int>()));
    }
    if (op == "squeeze") return project(view::squeeze(a));
    if (op == "atleast_nd") return project(view::atleast_nd(a, (size_t)args["nd"].as_int()));
    if (op == "flip") {
        if (args["axis"].size() == 0) return project(view::flip(a, nm::None));
        if (args["int"].as_bool()) return project(view::flip(a, (int)args["axis"][0][0].as_int()));
        return project(view::flip(a, args["axis"][0].as_vec<int>()));
    }
    return crash_res("unknown op " + op);
}

int main(int argc, char** argv) { return run_driver(argc, argv, handle); }
