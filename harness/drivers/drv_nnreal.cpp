// C17 driver for the real-valued routines: softmax / softmin, batch / layer / instance / group normalisation, bilinear,
// pairwise_distance and cosine_similarity on double arrays holding small integers.  Results travel as round(value * 1024)
// (bilinear: exact integers); the specification (NNReal.tla) computes the same quantity in fixed point and TraceOps
// accepts within the event's tolerance.
#include "verif/driver.hpp"
#include "verif/arrays.hpp"
#include "nmtools/array/view/softmax.hpp"
#include "nmtools/array/view/softmin.hpp"
#include "nmtools/array/view/batch_norm.hpp"
#include "nmtools/array/view/layer_norm.hpp"
#include "nmtools/array/view/instance_norm.hpp"
#include "nmtools/array/view/group_norm.hpp"
#include "nmtools/array/view/bilinear.hpp"
#include "nmtools/array/view/pairwise_distance.hpp"
#include "nmtools/array/view/cosine_similarity.hpp"
#include <cmath>

using namespace verif;
namespace view = nmtools::view;
using namespace nmtools::literals;

static dyn_t<double> operand(const vj::value& c, size_t j) {
    auto k = c["data"][j].as_vec<long>(); std::vector<double> d(k.begin(), k.end());
    return make_data<double>(c["shapes"][j].as_vec<long>(), d);
}
template <class V> static vj::value scaled(const V& v, double mul) {
    auto p = project(v); if (!p["ok"].as_bool()) return p;
    vj::value el = vj::value::array();
    for (size_t i = 0; i < p["elems"].size(); i++) {
        const auto& e = p["elems"][i];
        double x = elem_to_double(e);
        if (!(x == x) || std::fabs(x) > 1e6) el.push((long)999999999); else el.push((long)std::llround(x * mul));
    }
    p.set("elems", el); return p;
}

static vj::value handle(const vj::value& c) {
    const std::string op = c["op"].as_str(); const auto& g = c["args"];
    auto x = operand(c, 0);
    if (op == "softmax") return scaled(view::softmax(x, (int)g["axis"].as_int()), 1024);
    if (op == "softmin") return scaled(view::softmin(x, (int)g["axis"].as_int()), 1024);
    if (op == "batch_norm") return scaled(view::batch_norm(x, operand(c, 1), operand(c, 2), operand(c, 3), operand(c, 4)), 1024);
    if (op == "layer_norm") return scaled(view::layer_norm(x, operand(c, 1), operand(c, 2)), 1024);
    if (op == "instance_norm") {
        long nd = g["nd"].as_int();
        if (nd == 1) return scaled(view::instance_norm(x, operand(c, 1), operand(c, 2), 1_ct), 1024);
        if (nd == 2) return scaled(view::instance_norm(x, operand(c, 1), operand(c, 2), 2_ct), 1024);
        return crash_res("driver:unsupported nd");
    }
    if (op == "group_norm") return scaled(view::group_norm(x, (int)g["groups"].as_int(), operand(c, 1), operand(c, 2)), 1024);
    if (op == "bilinear") { if (g["bias"].as_bool()) return scaled(view::bilinear(x, operand(c, 1), operand(c, 2), operand(c, 3)), 1); return scaled(view::bilinear(x, operand(c, 1), operand(c, 2)), 1); }
    if (op == "pairwise_distance") {
        if (g["keepdims"].as_bool()) return scaled(view::pairwise_distance(x, operand(c, 1), 2, 1e-6, nm::True), 1024);
        return scaled(view::pairwise_distance(x, operand(c, 1)), 1024);
    }
    if (op == "cosine_similarity") return scaled(view::cosine_similarity(x, operand(c, 1), (int)g["axis"].as_int()), 1024);
    return crash_res("unknown op " + op);
}
int main(int argc, char** argv) { return run_driver(argc, argv, handle); }
