// C04 driver: selecting, replicating, joining and generating views on dynamic arrays with run-time arguments.
#include "verif/driver.hpp"
#include "verif/arrays.hpp"
#include "nmtools/array/view/tile.hpp"
#include "nmtools/array/view/repeat.hpp"
#include "nmtools/array/view/roll.hpp"
#include "nmtools/array/view/take.hpp"
#include "nmtools/array/view/compress.hpp"
#include "nmtools/array/view/concatenate.hpp"
#include "nmtools/array/view/stack.hpp"
#include "nmtools/array/view/hstack.hpp"
#include "nmtools/array/view/vstack.hpp"
#include "nmtools/array/view/dstack.hpp"
#include "nmtools/array/view/column_stack.hpp"
#include "nmtools/array/view/split.hpp"
#include "nmtools/array/view/sliding_window.hpp"
#include "nmtools/array/view/diagonal.hpp"
#include "nmtools/array/view/diagflat.hpp"
#include "nmtools/array/view/tril.hpp"
#include "nmtools/array/view/triu.hpp"
#include "nmtools/array/view/where.hpp"
#include "nmtools/array/view/arange.hpp"
#include "nmtools/array/view/linspace.hpp"
#include "nmtools/array/view/eye.hpp"
#include "nmtools/array/view/identity.hpp"
#include "nmtools/array/view/tri.hpp"
#include "nmtools/array/view/full.hpp"
#include "nmtools/array/view/zeros.hpp"
#include "nmtools/array/view/ones.hpp"
#include "nmtools/array/view/full_like.hpp"
#include "nmtools/array/view/zeros_like.hpp"
#include "nmtools/array/view/ones_like.hpp"
#include "nmtools/array/view/pad.hpp"
#include "nmtools/array/view/resize.hpp"
#include "nmtools/array/view/expand.hpp"
#include <cmath>

using namespace verif;
namespace view = nmtools::view;

template <class T> static vj::value list_project(const T& t) {
    // run-time list or tuple of arrays -> {ok, crash, shape:[shape...], elems:[elems...]}
    if constexpr (meta::is_maybe_v<T>) { if (!static_cast<bool>(t)) return nothing_res(); return list_project(*t); }
    else {
        vj::value shapes = vj::value::array(), elems = vj::value::array();
        bool ok = true;
        auto one = [&](const auto& x) { auto p = project(x); if (!p["ok"].as_bool()) ok = false; shapes.push(p["shape"]); elems.push(p["elems"]); };
        if constexpr (meta::is_tuple_v<T>) { constexpr auto N = meta::len_v<T>; meta::template_for<N>([&](auto I) { one(nmtools::get<decltype(I)::value>(t)); }); }
        else { for (size_t i = 0; i < (size_t)nm::len(t); i++) one(nm::at(t, i)); }
        vj::value r = vj::value::object();
        r.set("ok", ok).set("crash", "").set("shape", shapes).set("elems", elems);
        return r;
    }
}

// one-dimensional generator views are indexed with a plain integer
template <class V> static vj::value project1d(const V& v) {
    if constexpr (meta::is_maybe_v<V>) { if (!static_cast<bool>(v)) return nothing_res(); return project1d(*v); }
    else {
        auto shp = shape_vec(nm::shape(v));
        vj::value el = vj::value::array();
        for (long i = 0; i < shp[0]; i++) el.push(elem_value(v((size_t)i)));
        vj::value r = vj::value::object();
        r.set("ok", true).set("crash", "").set("shape", vj::value(shp)).set("elems", el);
        return r;
    }
}

static vj::value handle(const vj::value& c) {
    const std::string op = c["op"].as_str();
    const auto& g = c["args"];
    std::vector<std::vector<long>> ss;
    for (size_t i = 0; i < c["shapes"].size(); i++) ss.push_back(c["shapes"][i].as_vec<long>());
    auto opt_int = [&](const char* k) { return g[k].size() > 0; };

    // ---------------- generators (no operand)
    if (op == "arange" && g.has("dtype") && g["dtype"].as_str() == "float") return project1d(view::arange((int)g["start"].as_int(), (int)g["stop"].as_int(), (int)g["step"].as_int()));     // default element type: float
    if (op == "arange") return project1d(view::arange((int)g["start"].as_int(), (int)g["stop"].as_int(), (int)g["step"].as_int(), nm::int64));
    if (op == "arange2") return project1d(view::arange((int)g["start"].as_int(), (int)g["stop"].as_int(), nm::int64));
    if (op == "arange1") return project1d(view::arange((int)g["stop"].as_int(), nm::int64));
    if (op == "arange_at") {
        // large ranges: length plus the elements at listed indices (the view is lazy: no storage behind it)
        auto sample = [&](const auto& v) {
            auto shp = shape_vec(nm::shape(v)); vj::value el = vj::value::array();
            for (size_t q = 0; q < g["at"].size(); q++) el.push(elem_value(v((size_t)g["at"][q].as_int())));
            vj::value r = vj::value::object(); r.set("ok", true).set("crash", "").set("shape", vj::value(shp)).set("elems", el); return r; };
        long form = g["form"].as_int();
        if (form == 1) return sample(view::arange((int)g["stop"].as_int(), nm::int64));
        if (form == 2) return sample(view::arange((int)g["start"].as_int(), (int)g["stop"].as_int(), nm::int64));
        return sample(view::arange((int)g["start"].as_int(), (int)g["stop"].as_int(), (int)g["step"].as_int(), nm::int64));
    }
    if (op == "linspace") {
        // values are logged multiplied by the case's denominator so that they are integers (exact for the reference)
        auto scale = [&](auto v) -> vj::value {
            auto p = project1d(v); if (!p["ok"].as_bool()) return p;
            double den = (double)g["den"].as_int(); vj::value el = vj::value::array();
            for (size_t i = 0; i < p["elems"].size(); i++) { double x = elem_to_double(p["elems"][i]) * den; double rr = std::nearbyint(x); el.push((long)(std::fabs(x - rr) < 1e-6 * (1 + std::fabs(rr)) ? rr : 999999999)); }
            p.set("elems", el); return p; };
        if (g["endpoint"].as_bool()) return scale(view::linspace((double)g["start"].as_int(), (double)g["stop"].as_int(), (size_t)g["num"].as_int(), nm::True, nm::False, nm::float64));
        return scale(view::linspace((double)g["start"].as_int(), (double)g["stop"].as_int(), (size_t)g["num"].as_int(), nm::False, nm::False, nm::float64));
    }
    if (op == "eye") return project(view::eye((size_t)g["n"].as_int(), (size_t)g["m"].as_int(), (int)g["k"].as_int(), nm::int64));
    if (op == "identity") return project(view::identity((size_t)g["n"].as_int(), nm::int64));
    if (op == "tri") return project(view::tri((size_t)g["n"].as_int(), (size_t)g["m"].as_int(), (int)g["k"].as_int(), nm::int64));
    if (op == "full") return project(view::full(g["shape"].as_vec<size_t>(), (long)g["value"].as_int()));
    if (op == "zeros") return project(view::zeros(g["shape"].as_vec<size_t>(), nm::int64));
    if (op == "ones") return project(view::ones(g["shape"].as_vec<size_t>(), nm::int64));

    auto a = make_leaf<long>(ss[0], 0);
    if (op == "full_like") return project(view::full_like(a, (long)g["value"].as_int()));
    if (op == "zeros_like") return project(view::zeros_like(a));
    if (op == "ones_like") return project(view::ones_like(a));
    if (op == "tile") return project(view::tile(a, g["reps"].as_vec<size_t>()));
    if (op == "repeat") {
        bool scalar = g["scalar"].as_bool();
        if (!opt_int("axis")) { if (scalar) return project1d(view::repeat(a, (size_t)g["repeats"][0].as_int(), nm::None)); return crash_res("driver:unsupported"); }
        int ax = (int)g["axis"][0].as_int();
        if (scalar) return project(view::repeat(a, (size_t)g["repeats"][0].as_int(), ax));
        return project(view::repeat(a, g["repeats"].as_vec<size_t>(), ax));
    }
    if (op == "roll") {
        bool sint = g["shift_int"].as_bool();
        if (!opt_int("axis")) return project(view::roll(a, (int)g["shift"][0].as_int(), nm::None));
        bool aint = g["axis_int"].as_bool();
        auto axes = g["axis"][0].as_vec<int>();
        if (sint && aint) return project(view::roll(a, (int)g["shift"][0].as_int(), axes[0]));
        if (sint && !aint) return project(view::roll(a, (int)g["shift"][0].as_int(), axes));
        if (!sint && aint) return crash_res("driver:unsupported");
        return project(view::roll(a, g["shift"].as_vec<int>(), axes));
    }
    if (op == "take") return project(view::take(a, g["indices"].as_vec<int>(), (int)g["axis"].as_int()));
    if (op == "compress") {
        auto cond = g["cond"].as_vec<int>();
        if (!opt_int("axis")) return project(view::compress(cond, a, nm::None));
        return project(view::compress(cond, a, (int)g["axis"][0].as_int()));
    }
    if (op == "sliding_window") {
        bool wint = g["window_int"].as_bool();
        if (!opt_int("axis")) { if (wint) return project(view::sliding_window(a, (size_t)g["window"][0].as_int())); return project(view::sliding_window(a, g["window"].as_vec<size_t>())); }
        auto axes = g["axis"][0].as_vec<int>();
        if (wint) return project(view::sliding_window(a, (size_t)g["window"][0].as_int(), axes[0]));
        return project(view::sliding_window(a, g["window"].as_vec<size_t>(), axes));
    }
    if (op == "diagonal") return project(view::diagonal(a, (int)g["offset"].as_int(), (int)g["axis1"].as_int(), (int)g["axis2"].as_int()));
    if (op == "diagflat") return project(view::diagflat(a, (int)g["k"].as_int()));
    if (op == "tril") return project(view::tril(a, (int)g["k"].as_int()));
    if (op == "triu") return project(view::triu(a, (int)g["k"].as_int()));
    if (op == "pad") return project(view::pad(a, g["widths"].as_vec<size_t>(), (long)g["value"].as_int()));
    if (op == "resize") return project(view::resize(a, g["dst"].as_vec<size_t>()));
    if (op == "expand") {
        long fill = g["fill"].as_int();
        bool spint = g["spacing_int"].as_bool();
        if (!opt_int("axis")) return crash_res("driver:unsupported");
        auto axes = g["axis"][0].as_vec<int>();
        if (g["axis_int"].as_bool()) return project(view::expand(a, axes[0], (size_t)g["spacing"][0].as_int(), fill));
        if (spint) return project(view::expand(a, axes, (size_t)g["spacing"][0].as_int(), fill));
        return project(view::expand(a, axes, g["spacing"].as_vec<size_t>(), fill));
    }
    if (op == "split") {
        int ax = (int)g["axis"].as_int();
        if (g["sections"].size() > 0) return list_project(view::split(a, (size_t)g["sections"][0].as_int(), ax));
        return list_project(view::split(a, g["indices"].as_vec<int>(), ax));
    }
    // ---------------- binary
    auto b = make_leaf<long>(ss.size() > 1 ? ss[1] : ss[0], 1);
    if (op == "concatenate") { if (!opt_int("axis")) return project(view::concatenate(a, b, nm::None)); return project(view::concatenate(a, b, (int)g["axis"][0].as_int())); }
    if (op == "stack") return project(view::stack(a, b, (int)g["axis"].as_int()));
    if (op == "hstack") return project(view::hstack(a, b));
    if (op == "vstack") return project(view::vstack(a, b));
    if (op == "dstack") return project(view::dstack(a, b));
    if (op == "column_stack") return project(view::column_stack(a, b));
    if (op == "where") {
        // condition: operand 0 mapped to (value % 3) - 1, i.e. -1 / 0 / 1 (true iff non-zero; negative values are true);
        // args.cond = "float": the same truth pattern as -0.5 / 0 / 0.5.  x, y: operands 1 and 2
        auto x = make_leaf<long>(ss[1], 1); auto y = make_leaf<long>(ss[2], 2);
        if (g.has("cond") && g["cond"].as_str() == "float") {
            auto cond = make_leaf<double>(ss[0], 0);
            for (size_t p = 0; p < cond.size(); p++) cond.data()[p] = (double)(((long)cond.data()[p] % 3) - 1) * 0.5;
            return project(view::where(cond, x, y));
        }
        auto cond = make_leaf<long>(ss[0], 0);
        for (size_t p = 0; p < cond.size(); p++) cond.data()[p] = (cond.data()[p] % 3) - 1;
        return project(view::where(cond, x, y));
    }
    return crash_res("unknown op " + op);
}
int main(int argc, char** argv) { return run_driver(argc, argv, handle); }
