// C11 driver: the index type the library joins the axes of a clipped shape into.  For a compile-time grid of bounds
// (B1,..,Bk) a shape tuple<clipped<B1>,..,clipped<Bk>> holds run-time extents within the bounds; the event reports the
// range of the joined type (meta::get_element_or_common_type_t of the tuple, what tuple_at / at with a run-time position
// returns) and every extent read back through index::tuple_at with a run-time position, plus the run-time product.
// StaticInfo.AbsJoin is the specification: the joined range contains the range of every axis (TraceStatic decides).
#include "verif/driver.hpp"
#include "verif/arrays.hpp"
#include "nmtools/array/index/tuple_at.hpp"
#include "nmtools/array/index/product.hpp"
using namespace verif;

template <size_t... B> static vj::value go(const std::vector<long>& ext) {
    using shape_t = nmtools_tuple<nm::clipped_size_t<B>...>;
    using join_t = meta::get_element_or_common_type_t<shape_t>;
    constexpr size_t K = sizeof...(B);
    shape_t s; size_t i = 0;
    meta::template_for<K>([&](auto I) { nm::at(s, I) = (size_t)ext[i++]; });
    vj::value r = vj::value::object();
    std::vector<long> at, direct;
    meta::template_for<K>([&](auto I) { direct.push_back((long)(size_t)nm::at(s, I)); });
    for (size_t p = 0; p < K; p++) at.push_back((long)(size_t)nm::index::tuple_at(s, p));
    r.set("ok", true).set("crash", "").set("at", vj::value(at)).set("direct", vj::value(direct)).set("shape", vj::value::array()).set("elems", vj::value::array());
    if constexpr (meta::is_clipped_integer_v<join_t>) r.set("join", vj::value(std::vector<long>{(long)join_t::min, (long)join_t::max}));
    else r.set("join", vj::value::array());       // a plain integer: unbounded
    r.set("product", (long)(size_t)nm::index::product(s));
    return r;
}
#define G2(A, B) if (b.size() == 2 && b[0] == A && b[1] == B) return go<A, B>(e);
#define G3(A, B, C) if (b.size() == 3 && b[0] == A && b[1] == B && b[2] == C) return go<A, B, C>(e);
#define ROW2(A) G2(A, 1) G2(A, 2) G2(A, 3) G2(A, 6)
#define ROW3(A, B) G3(A, B, 1) G3(A, B, 2) G3(A, B, 4)
static vj::value handle(const vj::value& c) {
    auto b = c["bounds"].as_vec<long>(); auto e = c["extents"].as_vec<long>();
    ROW2(1) ROW2(2) ROW2(3) ROW2(6)
    ROW3(1, 1) ROW3(1, 3) ROW3(2, 1) ROW3(2, 3) ROW3(4, 1) ROW3(4, 3)
    return crash_res("driver:bounds not compiled");
}
int main(int argc, char** argv) { return run_driver(argc, argv, handle); }
