// C09 / C20 driver: one array value per compile-time shape (-DSHAPE_ID=n) is cast to every array kind the library has
// (fixed / hybrid / dynamic legacy classes, nested std::array / vector, the 15 ndarray_t shape x buffer kinds, element
// type casts) and every kind runs the same menu of views with compile-time and run-time arguments.  Every result is an
// event in the format of the other drivers: TraceOps decides each one against the single reference, so agreement between
// kinds (and with compile-time evaluation) follows.  A compile-time rejection (error type) counts as "reports failure".
#include "verif/driver.hpp"
#include "verif/arrays.hpp"
#include "nmtools/array/ndarray.hpp"
#include "nmtools/utility/cast.hpp"
#include "nmtools/array/view/flatten.hpp"
#include "nmtools/array/view/squeeze.hpp"
#include "nmtools/array/view/transpose.hpp"
#include "nmtools/array/view/flip.hpp"
#include "nmtools/array/view/expand_dims.hpp"
#include "nmtools/array/view/reshape.hpp"
#include "nmtools/array/view/moveaxis.hpp"
#include "nmtools/array/view/atleast_nd.hpp"
#include "nmtools/array/view/tile.hpp"
#include "nmtools/array/view/repeat.hpp"
#include "nmtools/array/view/roll.hpp"
#include "nmtools/array/view/take.hpp"
#include "nmtools/array/view/sum.hpp"
#include "nmtools/array/view/cumsum.hpp"
#include "nmtools/array/view/broadcast_to.hpp"
#include "nmtools/array/view/concatenate.hpp"
#include "nmtools/array/view/slice.hpp"
#include "nmtools/array/view/ufuncs/add.hpp"
#include "nmtools/array/view/pad.hpp"
#include "nmtools/array/view/stack.hpp"
#include "nmtools/array/view/compress.hpp"
#include "nmtools/array/view/swapaxes.hpp"
#include "nmtools/array/view/resize.hpp"
#include "nmtools/array/view/expand.hpp"
#include "nmtools/array/view/sliding_window.hpp"
#include "nmtools/array/view/vstack.hpp"

using namespace verif;
namespace view = nmtools::view;
namespace kind = nmtools::array::kind;
using namespace nmtools::literals;
using nm::None; using nm::Ellipsis;

#ifndef SHAPE_ID
#define SHAPE_ID 0
#endif
#ifndef GROUP
#define GROUP 0      // 0: all kinds; 1..: a subset (to split compile time)
#endif

template <size_t... S> struct shape_c {
    static constexpr size_t dim = sizeof...(S);
    static constexpr size_t numel = (S * ...);
    static constexpr std::array<size_t, sizeof...(S)> ext{S...};
    using fixed_t = na::fixed_ndarray<long, S...>;
};
#if SHAPE_ID == 0
using SH = shape_c<2, 3>;
#elif SHAPE_ID == 1
using SH = shape_c<1, 2, 3>;
#elif SHAPE_ID == 2
using SH = shape_c<1, 2, 1, 3>;
#elif SHAPE_ID == 3
using SH = shape_c<2, 1, 3, 1>;
#elif SHAPE_ID == 4
using SH = shape_c<6>;
#elif SHAPE_ID == 5
using SH = shape_c<2, 2, 2>;
#elif SHAPE_ID == 6
using SH = shape_c<3, 1>;
#elif SHAPE_ID == 7
using SH = shape_c<3, 2>;
#elif SHAPE_ID == 8
using SH = shape_c<4, 1, 2>;
#endif
constexpr size_t D = SH::dim;
constexpr size_t N = SH::numel;

static vj::value evs; static long next_id;
static vj::value JV(const std::vector<long>& v) { return vj::value(v); }
static vj::value L1(const vj::value& a) { vj::value r = vj::value::array(); r.push(a); return r; }
static vj::value L2(const vj::value& a, const vj::value& b) { vj::value r = vj::value::array(); r.push(a); r.push(b); return r; }
static std::vector<long> shape_v() { return std::vector<long>(SH::ext.begin(), SH::ext.end()); }
static std::vector<long> data_v() { std::vector<long> d; for (size_t p = 0; p < N; p++) d.push_back((long)p + 1); return d; }
struct O { vj::value v = vj::value::object(); template <class T> O& operator()(const char* k, const T& x) { v.set(k, x); return *this; } };

template <class R> static void emit(const std::string& op, const std::string& cfg, const vj::value& shapes, const vj::value& args, const R& r, bool two = false) {
    vj::value e = vj::value::object(); vj::value res;
    if constexpr (meta::is_fail_v<R>) { res = vj::value::object(); res.set("ok", false).set("crash", "").set("shape", vj::value::array()).set("elems", vj::value::array()).set("static_reject", true); }
    else { res = project(r); if (op == "add") res.set("dtype", "int"); }
    e.set("id", next_id++).set("op", op).set("cfg", cfg).set("shapes", shapes).set("args", args).set("res", res);
    if (two) e.set("data", L2(JV(data_v()), JV(data_v())));
    evs.push(e);
}

template <size_t... I> constexpr auto rev_axes_ct(std::index_sequence<I...>) { return nmtools_tuple<meta::ct<(int)(D - 1 - I)>...>{}; }
template <size_t... I> constexpr auto long_reps_ct(std::index_sequence<I...>) { return nmtools_tuple<meta::ct<((I == 0 || I == D) ? 2 : 1)>...>{}; }
template <size_t... I> constexpr auto bshape_ct(std::index_sequence<I...>) { return nmtools_tuple<meta::ct<2>, meta::ct<SH::ext[I]>...>{}; }

template <class A> static void view_ops(const std::string& cfg, const A& a) {
    const vj::value sh = L1(JV(shape_v())); const vj::value none = O()("none", true).v; const vj::value empty = vj::value::array();
    emit("cast", cfg, sh, O()("kind", cfg).v, a);
    emit("flatten", cfg, sh, none, view::flatten(a));
    emit("squeeze", cfg, sh, none, view::squeeze(a));
    { std::vector<long> rv; std::array<int, D> ra{}; for (size_t i = 0; i < D; i++) { rv.push_back((long)(D - 1 - i)); ra[i] = (int)(D - 1 - i); }
      emit("transpose", cfg, sh, O()("axes", empty).v, view::transpose(a, None));
      emit("transpose", cfg + "/rt_axes", sh, O()("axes", L1(JV(rv))).v, view::transpose(a, ra));
      emit("transpose", cfg + "/ct_axes", sh, O()("axes", L1(JV(rv))).v, view::transpose(a, rev_axes_ct(std::make_index_sequence<D>{}))); }
    emit("flip", cfg, sh, O()("axis", empty)("int", false).v, view::flip(a, None));
    emit("flip", cfg + "/rt_axis", sh, O()("axis", L1(JV({-1})))("int", true).v, view::flip(a, -1));
    emit("flip", cfg + "/ct_axis", sh, O()("axis", L1(JV({0})))("int", true).v, view::flip(a, 0_ct));
    emit("expand_dims", cfg + "/rt_axis", sh, O()("axis", JV({0}))("int", true).v, view::expand_dims(a, 0));
    emit("expand_dims", cfg + "/rt_neg", sh, O()("axis", JV({-1}))("int", true).v, view::expand_dims(a, -1));
    emit("expand_dims", cfg + "/ct_axis", sh, O()("axis", JV({1}))("int", true).v, view::expand_dims(a, 1_ct));
    emit("reshape", cfg + "/rt_dst", sh, O()("dst", JV({(long)N})).v, view::reshape(a, std::vector<int>{(int)N}));
    emit("reshape", cfg + "/ct_dst", sh, O()("dst", JV({(long)N})).v, view::reshape(a, nmtools_tuple<meta::ct<(int)N>>{}));
    emit("reshape", cfg + "/rt_infer", sh, O()("dst", JV({-1, (long)SH::ext[D - 1]})).v, view::reshape(a, std::array<int, 2>{-1, (int)SH::ext[D - 1]}));
    emit("moveaxis", cfg, sh, O()("src", JV({0}))("dst", JV({-1}))("int", true).v, view::moveaxis(a, 0, -1));
    // (a run-time nd on a 1-d fixed-shape array does not compile: the result shape is resolved to a constant tuple - a loud limitation)
    if constexpr (D >= 2) emit("atleast_nd", cfg + "/rt", sh, O()("nd", 3L).v, view::atleast_nd(a, (size_t)3));
    emit("atleast_nd", cfg + "/ct", sh, O()("nd", 3L).v, view::atleast_nd(a, 3_ct));
    emit("tile", cfg + "/rt_reps", sh, O()("reps", JV({2})).v, view::tile(a, std::vector<size_t>{2}));
    emit("tile", cfg + "/ct_reps", sh, O()("reps", JV({2})).v, view::tile(a, nmtools_tuple{2_ct}));
    // more repetitions than axes: axes are prepended
    { std::vector<long> lv; std::vector<size_t> ls; for (size_t i = 0; i <= D; i++) { long r = (i == 0 || i == D) ? 2 : 1; lv.push_back(r); ls.push_back((size_t)r); }
      emit("tile", cfg + "/rt_long", sh, O()("reps", JV(lv)).v, view::tile(a, ls));
      { std::array<size_t, D + 1> la{}; for (size_t i = 0; i <= D; i++) la[i] = ls[i];
        emit("tile", cfg + "/arr_long", sh, O()("reps", JV(lv)).v, view::tile(a, la)); }
      emit("tile", cfg + "/ct_long", sh, O()("reps", JV(lv)).v, view::tile(a, long_reps_ct(std::make_index_sequence<D + 1>{}))); }
    emit("repeat", cfg, sh, O()("repeats", JV({2}))("scalar", true)("axis", JV({0})).v, view::repeat(a, (size_t)2, 0));
    emit("roll", cfg, sh, O()("shift", JV({1}))("axis", L1(JV({-1})))("shift_int", true)("axis_int", true).v, view::roll(a, 1, -1));
    emit("take", cfg, sh, O()("indices", JV({0, 0}))("axis", (long)(D - 1)).v, view::take(a, std::vector<int>{0, 0}, (int)(D - 1)));
    { auto red = [&](const vj::value& ax, bool ai, const char* kd) { return O()("axis", ax)("axis_int", ai)("initial", empty)("keepdims", kd).v; };
      emit("sum", cfg + "/rt_axis", sh, red(L1(JV({-1})), true, "F"), view::sum(a, -1));
      emit("sum", cfg + "/ct_axis", sh, red(L1(JV({0})), true, "F"), view::sum(a, 0_ct));
      emit("sum", cfg + "/keep", sh, red(L1(JV({-1})), true, "T"), view::sum(a, -1, None, None, nm::True));
      emit("sum", cfg + "/all", sh, red(empty, false, "F"), view::sum(a, None)); }
    emit("cumsum", cfg, sh, O()("axis", 0L).v, view::cumsum(a, 0));
    { std::vector<long> bv{2}; std::vector<size_t> bs{2}; for (auto x : SH::ext) { bv.push_back((long)x); bs.push_back(x); }
      emit("broadcast_to", cfg + "/rt_dst", sh, O()("dst", JV(bv)).v, view::broadcast_to(a, bs));
      emit("broadcast_to", cfg + "/ct_dst", sh, O()("dst", JV(bv)).v, view::broadcast_to(a, bshape_ct(std::make_index_sequence<D>{}))); }
    emit("concatenate", cfg, L2(JV(shape_v()), JV(shape_v())), O()("axis", JV({0})).v, view::concatenate(a, a, 0), true);
    { vj::value parts = vj::value::array(); parts.push(O()("k", "e").v); parts.push(O()("k", "s")("start", empty)("stop", empty)("step", JV({-1})).v);
      emit("slice", cfg, sh, O()("parts", parts)("enc", "packed").v, view::slice(a, Ellipsis, nmtools_tuple<nm::none_t, nm::none_t, int>{None, None, -1})); }
    emit("add", cfg, L2(JV(shape_v()), JV(shape_v())), none, view::add(a, a), true);
#ifndef KINDS_SHORT_MENU
    // second menu: views whose result extents exceed the source's (or depend on run-time arguments only)
    { std::vector<long> wv(2 * D, 1); std::vector<size_t> ws(2 * D, 1);
      emit("pad", cfg, sh, O()("widths", JV(wv))("value", 0L).v, view::pad(a, ws, 0L)); }
    emit("stack", cfg, L2(JV(shape_v()), JV(shape_v())), O()("axis", 0L).v, view::stack(a, a, 0), true);
    emit("vstack", cfg, L2(JV(shape_v()), JV(shape_v())), none, view::vstack(a, a), true);
    { std::vector<long> cv; std::vector<int> ci; for (size_t i = 0; i < SH::ext[0]; i++) { cv.push_back(i % 2 == 0 ? 1 : 0); ci.push_back(i % 2 == 0 ? 1 : 0); }
      emit("compress", cfg, sh, O()("cond", JV(cv))("axis", JV({0})).v, view::compress(ci, a, 0)); }
    emit("swapaxes", cfg, sh, O()("a1", 0L)("a2", -1L).v, view::swapaxes(a, 0, -1));
    { std::vector<long> dv; std::vector<size_t> ds; for (auto x : SH::ext) { dv.push_back((long)x + 1); ds.push_back(x + 1); }
      emit("resize", cfg, sh, O()("dst", JV(dv)).v, view::resize(a, ds)); }
    emit("expand", cfg, sh, O()("axis", L1(JV({0})))("spacing", JV({1}))("fill", 0L)("axis_int", true)("spacing_int", true).v, view::expand(a, 0, (size_t)1, 0L));
    { const long w = SH::ext[D - 1] >= 2 ? 2 : 1;
      emit("sliding_window", cfg, sh, O()("window", JV({w}))("axis", L1(JV({-1})))("window_int", true).v, view::sliding_window(a, (size_t)w, -1)); }
#endif
}

static vj::value handle(const vj::value& c) {
    evs = vj::value::array(); next_id = c["id"].as_int() * 1000;
    typename SH::fixed_t base;
    { auto fv = view::mutable_flatten(base); for (size_t p = 0; p < N; p++) nm::at(fv, p) = (long)p + 1; }
    const std::string name = c["name"].as_str();
    #define KIND(NAME, EXPR) if (name == NAME) { auto x = EXPR; view_ops(NAME, x); }
    KIND("fixed", base)
    KIND("hybrid", nm::cast(base, kind::hybrid))
    KIND("dynamic", nm::cast(base, kind::dynamic))
    KIND("nested_arr", nm::cast(base, kind::nested_arr))
    KIND("nested_vec", nm::cast(base, kind::nested_vec))
    KIND("cs_fb", nm::cast(base, kind::ndarray_cs_fb))
    KIND("cs_hb", nm::cast(base, kind::ndarray_cs_hb))
    KIND("cs_db", nm::cast(base, kind::ndarray_cs_db))
    KIND("fs_fb", nm::cast(base, kind::ndarray_fs_fb))
    KIND("fs_hb", nm::cast(base, kind::ndarray_fs_hb))
    KIND("fs_db", nm::cast(base, kind::ndarray_fs_db))
    KIND("hs_fb", nm::cast(base, kind::ndarray_hs_fb))
    KIND("hs_hb", nm::cast(base, kind::ndarray_hs_hb))
    KIND("hs_db", nm::cast(base, kind::ndarray_hs_db))
    KIND("ds_fb", nm::cast(base, kind::ndarray_ds_fb))
    KIND("ds_hb", nm::cast(base, kind::ndarray_ds_hb))
    KIND("ds_db", nm::cast(base, kind::ndarray_ds_db))
    KIND("ls_fb", nm::cast(base, kind::ndarray_ls_fb))
    KIND("ls_hb", nm::cast(base, kind::ndarray_ls_hb))
    KIND("ls_db", nm::cast(base, kind::ndarray_ls_db))
    if (name == "dtype") {
        // element type casts keep the shape and convert every value (values 1..N are exact in every target type)
        const vj::value sh = L1(JV(shape_v()));
        emit("cast", "f64", sh, O()("kind", "f64").v, nm::cast<double>(base));
        emit("cast", "f32", sh, O()("kind", "f32").v, nm::cast<float>(base));
        emit("cast", "i8", sh, O()("kind", "i8").v, nm::cast<int8_t>(base));
        emit("cast", "u16", sh, O()("kind", "u16").v, nm::cast<uint16_t>(base));
        emit("cast", "dyn/f64", sh, O()("kind", "dyn/f64").v, nm::cast<double>(nm::cast(base, kind::dynamic)));
        emit("cast", "ds_db/i8", sh, O()("kind", "ds_db/i8").v, nm::cast<int8_t>(nm::cast(base, kind::ndarray_ds_db)));
        emit("cast", "ls_hb/f32", sh, O()("kind", "ls_hb/f32").v, nm::cast<float>(nm::cast(base, kind::ndarray_ls_hb)));
    }
    vj::value r = vj::value::object(); r.set("__events", evs); return r;
}
int main(int argc, char** argv) { return run_driver(argc, argv, handle); }
