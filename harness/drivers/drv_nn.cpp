// C17 driver: convolution, pooling and linear on dynamic integer arrays with run-time arguments.
#include "verif/driver.hpp"
#include "verif/arrays.hpp"
#include "nmtools/array/view/conv1d.hpp"
#include "nmtools/array/view/conv2d.hpp"
#include "nmtools/array/view/pooling.hpp"
#include "nmtools/array/view/linear.hpp"
#include <cmath>

using namespace verif;
namespace view = nmtools::view;

static dyn_t<long> operand(const vj::value& c, size_t j) { return make_data<long>(c["shapes"][j].as_vec<long>(), c["data"][j].as_vec<long>()); }

template <class V> static vj::value scaled(const V& v, double mul) {
    auto p = project(v); if (!p["ok"].as_bool()) return p;
    vj::value el = vj::value::array();
    for (size_t i = 0; i < p["elems"].size(); i++) {
        const auto& e = p["elems"][i];
        double x = e.is_str() ? strtod(e.as_str().c_str() + 2, nullptr) : e.as_dbl();
        double y = x * mul, rr = std::nearbyint(y);
        el.push((long)(std::fabs(y - rr) <= 1e-4 * (1 + std::fabs(rr)) ? rr : 999999999));
    }
    p.set("elems", el); return p;
}

static vj::value handle(const vj::value& c) {
    const std::string op = c["op"].as_str(); const auto& g = c["args"];
    auto x = operand(c, 0);
    if (op == "max_pool2d" || op == "avg_pool2d") {
        auto k = g["kernel"].as_vec<size_t>(); auto s = g["stride"].as_vec<size_t>(); bool ceil = g["ceil"].as_bool();
        if (op == "max_pool2d") return project(view::max_pool2d(x, k, s, ceil));
        // average pooling divides: integer-valued data in a floating-point array
        auto xd = make_data<double>(c["shapes"][0].as_vec<long>(), c["data"][0].as_dvec());
        return scaled(view::avg_pool2d(xd, k, s, ceil), (double)g["mul"].as_int());
    }
    auto w = operand(c, 1);
    bool has_bias = g["bias"].as_bool();
    if (op == "linear") { if (has_bias) return project(view::linear(x, w, operand(c, 2))); return project(view::linear(x, w)); }
    auto stride = g["stride"].as_vec<size_t>(); auto pad = g["padding"].as_vec<size_t>(); auto dil = g["dilation"].as_vec<size_t>();
    size_t groups = (size_t)g["groups"].as_int();
    std::string form = g["form"].as_str();      // "vec": every argument as a list; "int": scalars; "def": defaults (None)
    if (op == "conv2d") {
        if (form == "def") { if (has_bias) return project(view::conv2d(x, w, operand(c, 2))); return project(view::conv2d(x, w)); }
        if (form == "int") { if (has_bias) return project(view::conv2d(x, w, operand(c, 2), stride[0], pad[0], dil[0], groups)); return project(view::conv2d(x, w, nm::None, stride[0], pad[0], dil[0], groups)); }
        if (has_bias) return project(view::conv2d(x, w, operand(c, 2), stride, pad, dil, groups));
        return project(view::conv2d(x, w, nm::None, stride, pad, dil, groups));
    }
    if (op == "conv1d") {
        if (form == "def") { if (has_bias) return project(view::conv1d(x, w, operand(c, 2))); return project(view::conv1d(x, w)); }
        if (has_bias) return project(view::conv1d(x, w, operand(c, 2), stride[0], pad[0], dil[0], groups));
        return project(view::conv1d(x, w, nm::None, stride[0], pad[0], dil[0], groups));
    }
    return crash_res("unknown op " + op);
}
int main(int argc, char** argv) { return run_driver(argc, argv, handle); }
