// C19 driver (second part): interpreter of maybe / either / tuple histories over the real utl types, with the counting
// allocator behind nmtools_malloc / nmtools_free for the non-trivial payload (maybe<utl::vector<int>>).
#include <cstdlib>
#include <cstring>
#include <set>
namespace vledger {
    inline std::set<void*>& live() { static std::set<void*> s; return s; }
    inline long& bad_free() { static long n = 0; return n; }
    inline void* v_malloc(size_t n) { void* p = std::malloc(n ? n : 1); std::memset(p, 0xA5, n); live().insert(p); return p; }
    inline void v_free(void* p) { if (!p) return; if (!live().erase(p)) bad_free()++; else std::free(p); }
}
#define nmtools_malloc ::vledger::v_malloc
#define nmtools_free ::vledger::v_free
#include "verif/driver.hpp"
#include "nmtools/utl.hpp"
#include <new>

namespace utl = nmtools::utl;
struct act_t { std::string op, tag; int o = 0, p = 0, i = 0; long v = 0; };
static act_t parse_act(const vj::value& a) {
    act_t r; r.op = a["op"].as_str(); r.o = (int)a["o"].as_int() - 1;
    if (a.has("p")) r.p = (int)a["p"].as_int() - 1; if (a.has("i")) r.i = (int)a["i"].as_int(); if (a.has("v")) r.v = a["v"].as_int(); if (a.has("tag")) r.tag = a["tag"].as_str();
    return r;
}
static vj::value rec(bool live, const std::string& tag, const std::vector<long>& val) { vj::value r = vj::value::object(); r.set("live", live).set("tag", tag).set("val", vj::value(val)); return r; }

// per kind: the object type and how to construct / assign / read it
struct maybe_k { using T = utl::maybe<int>;
    static void ctor_val(void* m, const act_t& a) { if (a.tag == "nothing") new (m) T(utl::nothing); else new (m) T((int)a.v); }
    static void assign_val(T& x, const act_t& a) { if (a.tag == "nothing") x = utl::nothing; else x = (int)a.v; }
    static void write(T& x, const act_t& a) { *x = (int)a.v; }
    static vj::value proj(const T& x) { if (!x.has_value()) return rec(true, "nothing", {}); return rec(true, "left", {(long)*x}); } };
struct either_k { using T = utl::either<int, long>;
    static void ctor_val(void* m, const act_t& a) { if (a.tag == "left") new (m) T((int)a.v); else new (m) T((long)a.v); }
    static void assign_val(T& x, const act_t& a) { if (a.tag == "left") x = (int)a.v; else x = (long)a.v; }
    static void write(T& x, const act_t& a) { if (auto p = x.template get_if<int>()) *p = (int)a.v; else if (auto q = x.template get_if<long>()) *q = (long)a.v; }
    static vj::value proj(const T& x) { if (auto p = x.template get_if<int>()) return rec(true, "left", {(long)*p}); if (auto q = x.template get_if<long>()) return rec(true, "right", {(long)*q}); return rec(true, "none", {}); } };
struct tuple_k { using T = utl::tuple<int, long>;
    static void ctor_val(void* m, const act_t& a) { new (m) T((int)a.v, (long)a.v + 10); }
    static void assign_val(T& x, const act_t& a) { x = T((int)a.v, (long)a.v + 10); }
    static void write(T& x, const act_t& a) { if (a.i == 0) utl::get<0>(x) = (int)a.v; else utl::get<1>(x) = (long)a.v; }
    static vj::value proj(const T& x) { return rec(true, "left", {(long)utl::get<0>(x), (long)utl::get<1>(x)}); } };
struct maybe_vec_k { using V = utl::vector<int>; using T = utl::maybe<V>;
    static V mk(long v) { V x; x.push_back((int)v); x.push_back((int)v); return x; }
    static void ctor_val(void* m, const act_t& a) { if (a.tag == "nothing") new (m) T(utl::nothing); else new (m) T(mk(a.v)); }
    static void assign_val(T& x, const act_t& a) { if (a.tag == "nothing") x = utl::nothing; else x = mk(a.v); }
    static void write(T& x, const act_t& a) { (*x)[a.i] = (int)a.v; }
    static vj::value proj(const T& x) { if (!x.has_value()) return rec(true, "nothing", {}); std::vector<long> v; for (size_t i = 0; i < (*x).size() && i < 16; i++) v.push_back((*x)[i]); return rec(true, "left", v); } };

template <class K> struct machine {
    using T = typename K::T;
    alignas(T) unsigned char store[2][sizeof(T)]; bool live[2] = {false, false};
    T& obj(int o) { return *std::launder(reinterpret_cast<T*>(store[o])); }
    vj::value proj() { vj::value arr = vj::value::array(); for (int o = 0; o < 2; o++) arr.push(live[o] ? K::proj(obj(o)) : rec(false, "none", {})); return arr; }
    void step(const act_t& a) {
        if (a.op == "ctor") { new (store[a.o]) T(); live[a.o] = true; }
        else if (a.op == "ctor_val") { K::ctor_val(store[a.o], a); live[a.o] = true; }
        else if (a.op == "copy") { new (store[a.o]) T(obj(a.p)); live[a.o] = true; }
        else if (a.op == "assign") obj(a.o) = obj(a.p);
        else if (a.op == "assign_val") K::assign_val(obj(a.o), a);
        else if (a.op == "write") K::write(obj(a.o), a);
        else if (a.op == "dtor") { obj(a.o).~T(); live[a.o] = false; }
    }
    vj::value run(const vj::value& c) {
        vj::value evs = vj::value::array(); long id = c["id"].as_int();
        { vj::value b = vj::value::object(); b.set("e", "begin").set("id", id); evs.push(b); }
        const auto& h = c["h"];
        for (size_t k = 0; k < h.size(); k++) {
            step(parse_act(h[k]));
            vj::value s = vj::value::object();
            s.set("e", "step").set("id", id).set("k", (long)k).set("act", h[k]).set("proj", proj()).set("allocs", (long)vledger::live().size()).set("bad_free", vledger::bad_free());
            evs.push(s);
        }
        for (int o = 0; o < 2; o++) if (live[o]) { obj(o).~T(); live[o] = false; }
        vj::value e = vj::value::object(); e.set("e", "end").set("id", id).set("allocs", (long)vledger::live().size()).set("bad_free", vledger::bad_free()); evs.push(e);
        for (void* p : vledger::live()) std::free(p); vledger::live().clear(); vledger::bad_free() = 0;
        vj::value r = vj::value::object(); r.set("__events", evs); return r;
    }
};
static vj::value handle(const vj::value& c) {
    std::string kind = c["kind"].as_str();
    if (kind == "maybe") { machine<maybe_k> m; return m.run(c); }
    if (kind == "either") { machine<either_k> m; return m.run(c); }
    if (kind == "tuple") { machine<tuple_k> m; return m.run(c); }
    if (kind == "maybe_vec") { machine<maybe_vec_k> m; return m.run(c); }
    return verif::crash_res("unknown kind");
}
int main(int argc, char** argv) { return verif::run_driver(argc, argv, handle); }
