// C01 driver: walks every flat position of a shape through the real index functions and array classes and logs the
// addressing machine's behaviour (begin / step* / end) for the trace specification TraceLayout.
#include "verif/driver.hpp"
#include "verif/arrays.hpp"
#include "nmtools/array/index/compute_strides.hpp"
#include "nmtools/array/index/compute_offset.hpp"
#include "nmtools/array/index/compute_indices.hpp"
#include "nmtools/array/index/ndindex.hpp"
#include "nmtools/array/index/product.hpp"
#include "nmtools/array/index/reverse.hpp"
#include "nmtools/utl.hpp"
#include <array>

using namespace verif;
namespace ix = nmtools::index;

template <class shape_t>
static vj::value walk(const vj::value& c, const shape_t& shape, const std::vector<long>& shp) {
    vj::value evs = vj::value::array();
    long id = c["id"].as_int();
    std::string cfg = c["cfg"].as_str();
    auto strides = ix::compute_strides(shape);
    long n = (long)ix::product(shape);
    auto rev = ix::reverse(shape);
    {
        vj::value b = vj::value::object();
        b.set("e", "begin").set("id", id).set("cfg", cfg).set("shape", vj::value(shp))
         .set("strides", vj::value(shape_vec(strides))).set("prod", n).set("rev", vj::value(shape_vec(rev)));
        evs.push(b);
    }
    // array classes in both layouts over dynamic buffers; write k+1 through the logical index, find it in the buffer
    std::vector<size_t> us(shp.begin(), shp.end());
    na::row_major_ndarray_t<std::vector<long>, std::vector<size_t>> rm;
    na::column_major_ndarray_t<std::vector<long>, std::vector<size_t>> cm;
    rm.resize(us); cm.resize(us);
    for (long p = 0; p < n; p++) { rm.data()[p] = 0; cm.data()[p] = 0; }
    auto nd = ix::ndindex(shape);
    long count = (long)nd.size();
    for (long k = 0; k < n; k++) {
        auto i1 = ix::compute_indices((size_t)k, shape);
        auto i2 = ix::compute_indices((size_t)k, shape, strides);
        auto i3 = nd[(size_t)k];
        auto off = ix::compute_offset(i1, strides);
        std::vector<size_t> ui; for (auto x : shape_vec(i1)) ui.push_back((size_t)x);
        nm::apply_at(rm, ui) = k + 1;
        nm::apply_at(cm, ui) = k + 1;
        vj::value s = vj::value::object();
        s.set("e", "step").set("id", id).set("k", k).set("idx", vj::value(shape_vec(i1))).set("idx2", vj::value(shape_vec(i2)))
         .set("nd", vj::value(shape_vec(i3))).set("off", (long)off);
        evs.push(s);
    }
    std::vector<long> rmpos((size_t)n, -1), cmpos((size_t)n, -1);
    bool dup = false;
    for (long p = 0; p < n; p++) {
        long v = rm.data()[p]; if (v >= 1 && v <= n) { if (rmpos[v - 1] != -1) dup = true; rmpos[v - 1] = p; }
        long w = cm.data()[p]; if (w >= 1 && w <= n) { if (cmpos[w - 1] != -1) dup = true; cmpos[w - 1] = p; }
    }
    // read back through the logical index in both layouts
    bool readback = true;
    for (long k = 0; k < n; k++) {
        auto i3 = nd[(size_t)k];
        std::vector<size_t> ui; for (auto x : shape_vec(i3)) ui.push_back((size_t)x);
        if (nm::apply_at(rm, ui) != k + 1 || nm::apply_at(cm, ui) != k + 1) readback = false;
    }
    vj::value e = vj::value::object();
    e.set("e", "end").set("id", id).set("count", count).set("rm", vj::value(rmpos)).set("cm", vj::value(cmpos))
     .set("readback", readback && !dup)
     .set("rm_strides", vj::value(shape_vec(rm.strides()))).set("cm_strides", vj::value(shape_vec(cm.strides())));
    evs.push(e);
    vj::value r = vj::value::object(); r.set("__events", evs); return r;
}

template <size_t N> static vj::value walk_array(const vj::value& c, const std::vector<long>& shp) {
    std::array<size_t, N> s{}; for (size_t i = 0; i < N; i++) s[i] = (size_t)shp[i];
    return walk(c, s, shp);
}
template <size_t N> static vj::value walk_utl_array(const vj::value& c, const std::vector<long>& shp) {
    nmtools::utl::array<size_t, N> s{}; for (size_t i = 0; i < N; i++) s[i] = (size_t)shp[i];
    return walk(c, s, shp);
}
template <size_t N, class T> static vj::value walk_raw(const vj::value& c, const std::vector<long>& shp) {
    T s[N]; for (size_t i = 0; i < N; i++) s[i] = (T)shp[i];
    return walk(c, s, shp);
}

// index math only: huge extents, sampled flat positions; no storage
template <class T>
static vj::value big(const vj::value& c, const std::vector<long>& shp) {
    std::vector<T> shape; for (auto x : shp) shape.push_back((T)x);
    auto strides = ix::compute_strides(shape);
    vj::value evs = vj::value::array();
    auto ks = c["ks"].as_vec<long>();
    for (auto k : ks) {
        auto i1 = ix::compute_indices((T)k, shape);
        auto i2 = ix::compute_indices((T)k, shape, strides);
        auto off = ix::compute_offset(i1, strides);
        vj::value s = vj::value::object();
        s.set("e", "big").set("id", c["id"].as_int()).set("shape", vj::value(shp)).set("strides", vj::value(shape_vec(strides)))
         .set("k", k).set("idx", vj::value(shape_vec(i1))).set("idx2", vj::value(shape_vec(i2))).set("off", (long)off)
         .set("prod", (long)ix::product(shape));
        evs.push(s);
    }
    vj::value r = vj::value::object(); r.set("__events", evs); return r;
}

// index math on sizes beyond 2^31 (up to 2^60): TLC integers are 32-bit, so wide values travel as little-endian base-2^15 digit lists
static vj::value digits(unsigned long long v) { vj::value a = vj::value::array(); while (v) { a.push((long)(v & 32767)); v >>= 15; } return a; }
static unsigned long long undigits(const vj::value& a) { unsigned long long v = 0; for (size_t i = a.size(); i-- > 0;) v = (v << 15) | (unsigned long long)a[i].as_int(); return v; }
template <class T>
static vj::value wide(const vj::value& c, const std::vector<long>& shp) {
    std::vector<T> shape; for (auto x : shp) shape.push_back((T)x);
    auto strides = ix::compute_strides(shape);
    vj::value evs = vj::value::array();
    for (size_t q = 0; q < c["kds"].size(); q++) {
        T k = (T)undigits(c["kds"][q]);
        auto i1 = ix::compute_indices(k, shape);
        auto i2 = ix::compute_indices(k, shape, strides);
        auto off = ix::compute_offset(i1, strides);
        vj::value st = vj::value::array(); for (size_t i = 0; i < shape.size(); i++) st.push(digits((unsigned long long)nm::at(strides, i)));
        vj::value s = vj::value::object();
        s.set("e", "wide").set("id", c["id"].as_int()).set("shape", vj::value(shp)).set("strides", st)
         .set("k", c["kds"][q]).set("idx", vj::value(shape_vec(i1))).set("idx2", vj::value(shape_vec(i2))).set("off", digits((unsigned long long)off))
         .set("prod", digits((unsigned long long)ix::product(shape)));
        evs.push(s);
    }
    vj::value r = vj::value::object(); r.set("__events", evs); return r;
}

// the same with fixed-length containers of 32-bit elements: every extent and stride fits the element type, the size does not
// (the offset is accumulated in nm_size_t; the unrolled branch of compute_offset is the one taken here)
template <class T, size_t D>
static vj::value wide_arr(const vj::value& c, const std::vector<long>& shp) {
    std::array<T, D> shape; for (size_t i = 0; i < D; i++) shape[i] = (T)shp[i];
    auto strides = ix::compute_strides(shape);
    vj::value evs = vj::value::array();
    for (size_t q = 0; q < c["kds"].size(); q++) {
        size_t k = (size_t)undigits(c["kds"][q]);
        auto i1 = ix::compute_indices(k, shape);
        auto i2 = ix::compute_indices(k, shape, strides);
        auto off = ix::compute_offset(i1, strides);
        vj::value st = vj::value::array(); for (size_t i = 0; i < D; i++) st.push(digits((unsigned long long)nm::at(strides, i)));
        vj::value s = vj::value::object();
        s.set("e", "wide").set("id", c["id"].as_int()).set("shape", vj::value(shp)).set("strides", st)
         .set("k", c["kds"][q]).set("idx", vj::value(shape_vec(i1))).set("idx2", vj::value(shape_vec(i2))).set("off", digits((unsigned long long)off));
        evs.push(s);
    }
    vj::value r = vj::value::object(); r.set("__events", evs); return r;
}
template <class T> static vj::value wide_arr_d(const vj::value& c, const std::vector<long>& shp) {
    switch (shp.size()) { case 2: return wide_arr<T, 2>(c, shp); case 3: return wide_arr<T, 3>(c, shp); case 4: return wide_arr<T, 4>(c, shp); case 5: return wide_arr<T, 5>(c, shp); }
    return crash_res("driver:dimension not compiled");
}

static vj::value handle(const vj::value& c) {
    auto shp = c["shape"].as_vec<long>();
    std::string cfg = c["cfg"].as_str();
    size_t d = shp.size();
    if (cfg == "wide_arr_u32") return wide_arr_d<uint32_t>(c, shp);
    if (cfg == "wide_arr_i32") return wide_arr_d<int32_t>(c, shp);
    if (cfg == "wide_sz") return wide<size_t>(c, shp);
    if (cfg == "wide_i64") return wide<int64_t>(c, shp);
    if (cfg == "big_sz") return big<size_t>(c, shp);
    if (cfg == "big_i64") return big<int64_t>(c, shp);
    if (cfg == "big_u32") return big<uint32_t>(c, shp);
    if (cfg == "big_i32") return big<int32_t>(c, shp);
    if (cfg == "vec") { std::vector<size_t> s(shp.begin(), shp.end()); return walk(c, s, shp); }
    if (cfg == "veci") { std::vector<int> s(shp.begin(), shp.end()); return walk(c, s, shp); }
    if (cfg == "vecl") { std::vector<long> s(shp.begin(), shp.end()); return walk(c, s, shp); }
    if (cfg == "sv") { nmtools_static_vector<size_t, 8> s; s.resize(d); for (size_t i = 0; i < d; i++) s[i] = (size_t)shp[i]; return walk(c, s, shp); }
    if (cfg == "utlsv") { nmtools::utl::static_vector<size_t, 8> s; s.resize(d); for (size_t i = 0; i < d; i++) s[i] = (size_t)shp[i]; return walk(c, s, shp); }
    if (cfg == "utlvec") { nmtools::utl::vector<size_t> s; s.resize(d); for (size_t i = 0; i < d; i++) s[i] = (size_t)shp[i]; return walk(c, s, shp); }
    if (cfg == "arr") switch (d) {
        case 1: return walk_array<1>(c, shp); case 2: return walk_array<2>(c, shp); case 3: return walk_array<3>(c, shp);
        case 4: return walk_array<4>(c, shp); case 5: return walk_array<5>(c, shp); case 6: return walk_array<6>(c, shp); }
    if (cfg == "utlarr") switch (d) {
        case 1: return walk_utl_array<1>(c, shp); case 2: return walk_utl_array<2>(c, shp); case 3: return walk_utl_array<3>(c, shp);
        case 4: return walk_utl_array<4>(c, shp); case 5: return walk_utl_array<5>(c, shp); case 6: return walk_utl_array<6>(c, shp); }
    return crash_res("unknown cfg " + cfg);
}

int main(int argc, char** argv) { return run_driver(argc, argv, handle); }
