// C07 driver: element-wise views on dynamic arrays: recording operation (mix) through the generic ufunc machinery
// (broadcast binary / unary / outer), and the named ufuncs that are computable on integers.
#include "verif/driver.hpp"
#include "verif/arrays.hpp"
#include "nmtools/array/view/ufunc.hpp"
#include "nmtools/array/view/ufuncs/add.hpp"
#include "nmtools/array/view/ufuncs/subtract.hpp"
#include "nmtools/array/view/ufuncs/multiply.hpp"
#include "nmtools/array/view/ufuncs/divide.hpp"
#include "nmtools/array/view/ufuncs/maximum.hpp"
#include "nmtools/array/view/ufuncs/minimum.hpp"
#include "nmtools/array/view/ufuncs/fmax.hpp"
#include "nmtools/array/view/ufuncs/fmin.hpp"
#include "nmtools/array/view/ufuncs/equal.hpp"
#include "nmtools/array/view/ufuncs/not_equal.hpp"
#include "nmtools/array/view/ufuncs/less.hpp"
#include "nmtools/array/view/ufuncs/less_equal.hpp"
#include "nmtools/array/view/ufuncs/greater.hpp"
#include "nmtools/array/view/ufuncs/greater_equal.hpp"
#include "nmtools/array/view/ufuncs/logical_and.hpp"
#include "nmtools/array/view/ufuncs/logical_or.hpp"
#include "nmtools/array/view/ufuncs/logical_xor.hpp"
#include "nmtools/array/view/ufuncs/logical_not.hpp"
#include "nmtools/array/view/ufuncs/bitwise_and.hpp"
#include "nmtools/array/view/ufuncs/bitwise_or.hpp"
#include "nmtools/array/view/ufuncs/bitwise_xor.hpp"
#include "nmtools/array/view/ufuncs/left_shift.hpp"
#include "nmtools/array/view/ufuncs/right_shift.hpp"
#include "nmtools/array/view/ufuncs/negative.hpp"
#include "nmtools/array/view/ufuncs/positive.hpp"
#include "nmtools/array/view/ufuncs/square.hpp"
#include "nmtools/array/view/ufuncs/fabs.hpp"
#include "nmtools/array/view/ufuncs/invert.hpp"
#include "nmtools/array/view/ufuncs/signbit.hpp"
#include "nmtools/array/view/ufuncs/clip.hpp"
#include "nmtools/array/view/activations/relu.hpp"
#include "nmtools/array/view/activations/relu6.hpp"

using namespace verif;
namespace view = nmtools::view;

struct mix_t { template <class T, class U> constexpr auto operator()(const T& a, const U& b) const { return (long)((((31 * (long)a + 17 * (long)b + 7) % 10007) + 10007) % 10007); } };
struct mix1_t { template <class T> constexpr auto operator()(const T& a) const { return (long)((((31 * (long)a + 17 * 3 + 7) % 10007) + 10007) % 10007); } };

template <class V> static const char* dtype_of() {
    using E = meta::get_element_type_t<V>;
    if constexpr (std::is_same_v<E, bool>) return "bool";
    else if constexpr (std::is_integral_v<E>) return "int";
    else if constexpr (std::is_floating_point_v<E>) return "float";
    else return "other";
}
template <class V> static vj::value projt(const V& v) {
    auto r = project(v);
    if constexpr (meta::is_maybe_v<V>) r.set("dtype", dtype_of<meta::get_maybe_type_t<V>>()); else r.set("dtype", dtype_of<V>());
    return r;
}

static dyn_t<long> operand(const vj::value& c, size_t j) {
    auto shp = c["shapes"][j].as_vec<long>();
    if (c.has("data")) return make_data<long>(shp, c["data"][j].as_vec<long>());
    return make_leaf<long>(shp, (long)j);
}
static long scalar_operand(const vj::value& c, size_t j) { if (c.has("data")) return c["data"][j][0].as_int(); return 1000 * (long)j + 1; }

#define BIN(name) if (op == #name) { \
    if (!sa && !sb) return projt(view::name(operand(c, 0), operand(c, 1))); \
    if (!sa && sb) return projt(view::name(operand(c, 0), scalar_operand(c, 1))); \
    if (sa && !sb) return projt(view::name(scalar_operand(c, 0), operand(c, 1))); }
#define BINA(name) if (op == #name) { if (!sa && !sb) return projt(view::name(operand(c, 0), operand(c, 1))); }
#define UN(name) if (op == #name) return projt(view::name(operand(c, 0)));
#define OUT(name) if (op == "outer_" #name) return projt(view::outer_##name(operand(c, 0), operand(c, 1)));

// element types: operands of the listed types (args.etypes) with the given integer data; the result is projected as it comes
template <class F> static vj::value with_type(const std::string& t, F&& f) {
    if (t == "i8") return f((int8_t)0); if (t == "u8") return f((uint8_t)0); if (t == "i16") return f((int16_t)0); if (t == "u16") return f((uint16_t)0);
    if (t == "i64") return f((long)0); if (t == "f32") return f((float)0); if (t == "f64") return f((double)0);
    return crash_res("driver:unknown element type");
}
template <class T> static dyn_t<T> typed_operand(const vj::value& c, size_t j) {
    auto k = c["data"][j].as_vec<long>(); std::vector<T> d; for (auto x : k) d.push_back((T)x);
    return make_data<T>(c["shapes"][j].as_vec<long>(), d);
}
static vj::value typed(const vj::value& c) {
    const std::string op = c["op"].as_str(); const auto& et = c["args"]["etypes"];
    return with_type(et[0].as_str(), [&](auto ta) -> vj::value {
        auto a = typed_operand<decltype(ta)>(c, 0);
        if (c["shapes"].size() == 1) {
            if (op == "negative") return projt(view::negative(a));
            if (op == "square") return projt(view::square(a));
            return crash_res("driver:unsupported typed unary op");
        }
        return with_type(et[1].as_str(), [&](auto tb) -> vj::value {
            auto b = typed_operand<decltype(tb)>(c, 1);
            if (op == "add") return projt(view::add(a, b));
            if (op == "subtract") return projt(view::subtract(a, b));
            if (op == "multiply") return projt(view::multiply(a, b));
            if (op == "less") return projt(view::less(a, b));
            if (op == "maximum") return projt(view::maximum(a, b));
            return crash_res("driver:unsupported typed binary op");
        });
    });
}

static vj::value handle(const vj::value& c) {
    if (c["args"].has("etypes")) return typed(c);
    const std::string op = c["op"].as_str();
    size_t nops = c["shapes"].size();
    bool sa = nops > 0 && c["shapes"][0].size() == 0, sb = nops > 1 && c["shapes"][1].size() == 0;
    if (op == "mix") {
        if (!sa && !sb) return projt(view::broadcast_binary_ufunc(mix_t{}, operand(c, 0), operand(c, 1)));
        if (!sa && sb) return projt(view::broadcast_binary_ufunc(mix_t{}, operand(c, 0), scalar_operand(c, 1)));
        if (sa && !sb) return projt(view::broadcast_binary_ufunc(mix_t{}, scalar_operand(c, 0), operand(c, 1)));
        return crash_res("driver:unsupported");
    }
    if (op == "mix1") return projt(view::unary_ufunc(mix1_t{}, operand(c, 0)));
    if (op == "outer_mix") return projt(view::outer(mix_t{}, operand(c, 0), operand(c, 1)));
    BIN(add) BIN(subtract) BIN(multiply) BIN(less) BIN(maximum)
    BINA(divide) BINA(minimum) BINA(fmax) BINA(fmin) BINA(equal) BINA(not_equal) BINA(less_equal) BINA(greater) BINA(greater_equal)
    BINA(logical_and) BINA(logical_or) BINA(logical_xor) BINA(bitwise_and) BINA(bitwise_or) BINA(bitwise_xor) BINA(left_shift) BINA(right_shift)
    UN(negative) UN(positive) UN(square) UN(fabs) UN(logical_not) UN(invert) UN(signbit) UN(relu) UN(relu6)
    OUT(add) OUT(subtract) OUT(multiply)
    return crash_res("unknown op " + op);
}
int main(int argc, char** argv) { return run_driver(argc, argv, handle); }
