// C20 (mutable views): writing through mutable_flatten / mutable_reshape / mutable_slice / mutable_ref changes exactly the
// addressed source element.  For every index of the view the driver writes a marker through the view and reports which
// flat position(s) of the source buffer changed (-1 none, -2 several), then restores the source.
#include "verif/driver.hpp"
#include "verif/arrays.hpp"
#include "nmtools/array/view/mutable_flatten.hpp"
#include "nmtools/array/view/mutable_reshape.hpp"
#include "nmtools/array/view/mutable_slice.hpp"
#include "nmtools/array/view/mutable_ref.hpp"

using namespace verif;
namespace view = nmtools::view;
using nm::None; using nm::Ellipsis;

template <class V> static vj::value probe(dyn_t<long>& a, V&& mv) {
    if constexpr (meta::is_maybe_v<meta::remove_cvref_t<V>>) { if (!static_cast<bool>(mv)) { auto n = nothing_res(); n.set("maybe", true); return n; } return probe(a, *mv); }
    else {
        auto shp = shape_vec(nm::shape(mv)); std::vector<size_t> s(shp.begin(), shp.end());
        size_t n = 1; for (auto x : s) n *= x;
        size_t N = a.size(); std::vector<long> orig(a.data(), a.data() + N), pos;
        if (n > 0) { auto nd = nm::index::ndindex(s);
            for (size_t i = 0; i < n; i++) {
                nm::apply_at(mv, nd[i]) = -555;
                long where = -1; for (size_t p = 0; p < N; p++) if (a.data()[p] != orig[p]) where = (where == -1) ? (long)p : -2;
                pos.push_back(where);
                for (size_t p = 0; p < N; p++) a.data()[p] = orig[p];
            } }
        vj::value r = vj::value::object(); r.set("ok", true).set("crash", "").set("shape", vj::value(shp)).set("elems", vj::value(pos)); return r;
    }
}
static vj::value handle(const vj::value& c) {
    auto a = make_leaf<long>(c["shapes"][0].as_vec<long>(), 0);
    const auto& g = c["args"]; std::string v = g["view"].as_str(); const auto& va = g["vargs"];
    if (v == "flatten") return probe(a, view::mutable_flatten(a));
    if (v == "ref") return probe(a, view::mutable_ref(a));
    if (v == "reshape") return probe(a, view::mutable_reshape(a, va["dst"].as_vec<int>()));
    if (v == "slice") {
        // fully specified (start,stop,step) per axis, one part per axis
        const auto& ps = va["parts"]; using tri = nmtools_tuple<int, int, int>;
        auto t = [&](size_t q) { return tri{(int)ps[q]["start"][0].as_int(), (int)ps[q]["stop"][0].as_int(), (int)ps[q]["step"][0].as_int()}; };
        if (ps.size() == 1) return probe(a, view::mutable_slice(a, t(0)));
        if (ps.size() == 2) return probe(a, view::mutable_slice(a, t(0), t(1)));
        if (ps.size() == 3) return probe(a, view::mutable_slice(a, t(0), t(1), t(2)));
    }
    return crash_res("driver:unsupported");
}
int main(int argc, char** argv) { return run_driver(argc, argv, handle); }
