// C19 driver: interpreter of container histories over real objects, with a counting allocator behind
// nmtools_malloc / nmtools_free (fresh memory poisoned with 0xA5 so that uninitialised reads are deterministic).
#include <cstdlib>
#include <cstring>
#include <set>
namespace vledger {
    inline std::set<void*>& live() { static std::set<void*> s; return s; }
    inline long& bad_free() { static long n = 0; return n; }
    inline void* v_malloc(size_t n) { void* p = std::malloc(n ? n : 1); std::memset(p, 0xA5, n); live().insert(p); return p; }
    inline void v_free(void* p) { if (!p) return; if (!live().erase(p)) bad_free()++; else std::free(p); }
}
#define nmtools_malloc ::vledger::v_malloc
#define nmtools_free ::vledger::v_free
#include "verif/driver.hpp"
#include <variant>
#include <vector>
#include "nmtools/utl.hpp"
#include "nmtools/utility/small_vector.hpp"
#include <new>

struct act_t { std::string op; int o = 0, p = 0, n = 0, i = 0; long v = 0, w = 0; };
static act_t parse_act(const vj::value& a) {
    act_t r; r.op = a["op"].as_str(); r.o = (int)a["o"].as_int() - 1;
    if (a.has("p")) r.p = (int)a["p"].as_int() - 1; if (a.has("n")) r.n = (int)a["n"].as_int(); if (a.has("i")) r.i = (int)a["i"].as_int();
    if (a.has("v")) r.v = a["v"].as_int(); if (a.has("w")) r.w = a["w"].as_int();
    return r;
}

template <class C, bool Resizable, bool Sized> struct machine {
    static constexpr int NOBJ = 2;
    alignas(C) unsigned char store[NOBJ][sizeof(C)];
    bool live[NOBJ] = {false, false};
    C& obj(int o) { return *std::launder(reinterpret_cast<C*>(store[o])); }
    using T = typename C::value_type;

    vj::value proj() {
        vj::value arr = vj::value::array();
        for (int o = 0; o < NOBJ; o++) {
            vj::value el = vj::value::array();
            if (live[o]) { auto n = (size_t)obj(o).size(); for (size_t k = 0; k < n && k < 64; k++) el.push((long long)obj(o)[k]); if (n >= 64) el.push(-999); }
            vj::value r = vj::value::object(); r.set("live", live[o]).set("elems", el); arr.push(r);
        }
        return arr;
    }
    void step(const act_t& a) {
        if (a.op == "ctor") { new (store[a.o]) C(); live[a.o] = true; }
        else if (a.op == "ctor_n") { if constexpr (Sized) { new (store[a.o]) C((typename C::size_type)a.n); live[a.o] = true; } }
        else if (a.op == "ctor_vv") { if constexpr (Sized) { new (store[a.o]) C((T)a.v, (T)a.w); live[a.o] = true; } }
        else if (a.op == "copy") { new (store[a.o]) C(obj(a.p)); live[a.o] = true; }
        else if (a.op == "assign") { obj(a.o) = obj(a.p); }
        else if (a.op == "push") { if constexpr (Resizable) obj(a.o).push_back((T)a.v); }
        else if (a.op == "resize") { if constexpr (Resizable) obj(a.o).resize((size_t)a.n); }
        else if (a.op == "write") { obj(a.o)[a.i] = (T)a.v; }
        else if (a.op == "dtor") { obj(a.o).~C(); live[a.o] = false; }
    }
    vj::value run(const vj::value& c) {
        vj::value evs = vj::value::array();
        long id = c["id"].as_int();
        vj::value b = vj::value::object(); b.set("e", "begin").set("id", id); evs.push(b);
        const auto& h = c["h"];
        for (size_t k = 0; k < h.size(); k++) {
            act_t a = parse_act(h[k]);
            step(a);
            vj::value s = vj::value::object();
            s.set("e", "step").set("id", id).set("k", (long)k).set("act", h[k]).set("proj", proj())
             .set("allocs", (long)vledger::live().size()).set("bad_free", vledger::bad_free());
            evs.push(s);
        }
        int nlive = 0; for (int o = 0; o < NOBJ; o++) if (live[o]) nlive++;
        for (int o = 0; o < NOBJ; o++) if (live[o]) { obj(o).~C(); live[o] = false; }
        vj::value e = vj::value::object();
        e.set("e", "end").set("id", id).set("allocs", (long)vledger::live().size()).set("bad_free", vledger::bad_free());
        evs.push(e);
        // do not carry a leak of this history into the next one
        for (void* p : vledger::live()) std::free(p); vledger::live().clear(); vledger::bad_free() = 0;
        vj::value r = vj::value::object(); r.set("__events", evs); return r;
    }
};

namespace utl = nmtools::utl;
template <class T, size_t N> struct arr_wrap : utl::array<T, N> {   // uniform size()/value_type for the fixed array
    using value_type = T; using size_type = size_t;
    arr_wrap() : utl::array<T, N>{} {}
    size_t size() const { return N; }
};

template <class T> static vj::value dispatch(const vj::value& c) {
    std::string kind = c["kind"].as_str(); long cap = c["cap"].as_int();
    if (kind == "vector") { machine<utl::vector<T>, true, true> m; return m.run(c); }
    if (kind == "static" && cap == 2) { machine<utl::static_vector<T, 2>, true, true> m; return m.run(c); }
    if (kind == "static" && cap == 3) { machine<utl::static_vector<T, 3>, true, true> m; return m.run(c); }
    if (kind == "small" && cap == 2) { machine<nmtools::small_vector<T, 2>, true, true> m; return m.run(c); }
    if (kind == "small" && cap == 3) { machine<nmtools::small_vector<T, 3>, true, true> m; return m.run(c); }
    if (kind == "small_stl" && cap == 2) { machine<nmtools::small_vector<T, 2, std::variant, utl::static_vector, std::vector>, true, true> m; return m.run(c); }
    if (kind == "small_stl" && cap == 3) { machine<nmtools::small_vector<T, 3, std::variant, utl::static_vector, std::vector>, true, true> m; return m.run(c); }
    if (kind == "array" && cap == 2) { machine<arr_wrap<T, 2>, false, false> m; return m.run(c); }
    if (kind == "array" && cap == 3) { machine<arr_wrap<T, 3>, false, false> m; return m.run(c); }
    return verif::crash_res("unknown kind");
}
static vj::value handle(const vj::value& c) {
    if (c.has("elem") && c["elem"].as_str() == "double") return dispatch<double>(c);
    return dispatch<int>(c);
}
int main(int argc, char** argv) { return verif::run_driver(argc, argv, handle); }
