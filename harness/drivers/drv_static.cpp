// C11 driver: statically inferred shape / dimension / size / bounds of view types versus every run-time instance.
// Leaves of every static-knowledge kind (constant shape, clipped shape, fixed dimension, bounded dimension, bounded size,
// dynamic) are combined with programs whose arguments are compile-time constants (so that static knowledge propagates)
// or run-time values; for each resulting view TYPE the five traits are logged next to shape(), dim(), size() of the
// OBJECT, the lazily read elements and the result of eval() into the storage the library infers from the traits.
#include "verif/driver.hpp"
#include "verif/arrays.hpp"
#include "nmtools/array/eval.hpp"
#include "nmtools/array/view/transpose.hpp"
#include "nmtools/array/view/flip.hpp"
#include "nmtools/array/view/reshape.hpp"
#include "nmtools/array/view/flatten.hpp"
#include "nmtools/array/view/tile.hpp"
#include "nmtools/array/view/expand_dims.hpp"
#include "nmtools/array/view/ufuncs/add.hpp"
#include "nmtools/array/view/sum.hpp"
#include "nmtools/array/view/take.hpp"
#include "nmtools/array/view/concatenate.hpp"
#include "nmtools/array/view/atleast_nd.hpp"

#ifndef MAXD
#define MAXD 2
#endif
using namespace verif;
namespace view = nmtools::view;
using namespace nmtools::literals;

template <class T> static vj::value trait_val(const T& t) {
    vj::value a = vj::value::array();
    if constexpr (!meta::is_fail_v<T>) {
        if constexpr (meta::is_index_v<T> || std::is_integral_v<T>) a.push((long)t);
        else a.push(vj::value(shape_vec(t)));
    }
    return a;
}
template <class V> static vj::value traits_of() {
    vj::value r = vj::value::object();
    r.set("fixed_shape", trait_val(meta::fixed_shape_v<V>)).set("fixed_dim", trait_val(meta::fixed_dim_v<V>)).set("fixed_size", trait_val(meta::fixed_size_v<V>))
     .set("bounded_dim", trait_val(meta::bounded_dim_v<V>)).set("bounded_size", trait_val(meta::bounded_size_v<V>));
    return r;
}

struct step_t { std::string op; int a = 0; };
// R (restricted): leaves with a clipped shape only compose with flatten and reshape (every other view is a compile error)
template <int Level, bool R> constexpr bool on(int idx) {
    if (R && !(idx == 1 || idx == 7)) return false;
#ifdef FIRST_IDX
    if (Level == 0) return idx == FIRST_IDX;
#endif
    return true;
}
// every operation comes in compile-time-argument variants (a = variant number) so that static knowledge propagates
template <int Level, bool R, class V, class K> static vj::value sstep(const step_t& s, const V& v, K&& k) {
    auto cont = [&](const auto& r) -> vj::value {
        using RT = meta::remove_cvref_t<decltype(r)>;
        if constexpr (meta::is_maybe_v<RT>) { if (!static_cast<bool>(r)) { auto n = nothing_res(); n.set("maybe", true); return n; } return k(*r); }
        else return k(r);
    };
    if constexpr (on<Level, R>(0)) if (s.op == "transpose") return cont(view::transpose(v, nm::None));
    if constexpr (on<Level, R>(1)) if (s.op == "flatten") return cont(view::flatten(v));
    if constexpr (on<Level, R>(2)) if (s.op == "flip") { if (s.a == 0) return cont(view::flip(v, 0_ct)); return cont(view::flip(v, nm::None)); }
    if constexpr (on<Level, R>(3)) if (s.op == "sum") { if (s.a == 0) return cont(view::sum(v, 0_ct)); if (s.a == 1) return cont(view::sum(v, 0_ct, nm::None, nm::None, nm::True)); return cont(view::sum(v, (int)-1)); }
    if constexpr (on<Level, R>(4)) if (s.op == "add_self") return cont(view::add(v, v));
    if constexpr (on<Level, R>(5)) if (s.op == "tile") {
        if (s.a == 0) return cont(view::tile(v, nmtools_tuple{2_ct})); if (s.a == 1) return cont(view::tile(v, std::vector<size_t>{2}));
        if constexpr (Level == 0) { if (s.a == 2) return cont(view::tile(v, std::array<size_t, 4>{2, 1, 1, 2})); return cont(view::tile(v, nmtools_tuple{2_ct, 1_ct, 1_ct, 2_ct})); }
        else return crash_res("driver:unsupported"); }
    if constexpr (on<Level, R>(6)) if (s.op == "expand_dims") return cont(view::expand_dims(v, 0_ct));
    if constexpr (on<Level, R>(7)) if (s.op == "reshape") { return cont(view::reshape(v, std::vector<int>{-1})); }
    if constexpr (on<Level, R>(8)) if (s.op == "take") return cont(view::take(v, std::vector<int>{0, 0}, (int)-1));
    if constexpr (on<Level, R>(9)) if (s.op == "concat_self") { if (s.a == 0) return cont(view::concatenate(v, v, (int)0)); return cont(view::concatenate(v, v, 0_ct)); }
    if constexpr (on<Level, R>(10)) if (s.op == "atleast_nd") {
        // (a run-time nd on a 1-d constant-shape view does not compile - a loud limitation: the run-time variant is compiled for leaves only)
        if (s.a == 0) { if constexpr (Level == 0) return cont(view::atleast_nd(v, (size_t)3)); else return crash_res("driver:unsupported"); }
        return cont(view::atleast_nd(v, 3_ct)); }
    return crash_res("driver:operation not compiled at this position: " + s.op);
}
template <int Level, bool R, class V, class K> static vj::value schain(const std::vector<step_t>& st, size_t i, const V& v, K&& k) {
    if (i == st.size()) return k(v);
    if constexpr (Level >= MAXD) return crash_res("driver:program deeper than the compiled depth");
    else return sstep<Level, R>(st[i], v, [&](const auto& r) { return schain<Level + 1, R>(st, i + 1, r, k); });
}

template <class V> static vj::value report(const V& v) {
    if constexpr (meta::is_num_v<V> || nm::is_none_v<meta::remove_cvref_t<decltype(nm::shape(v))>>) return crash_res("driver:zero-dimensional result");
    else {
    auto lazy = project(v);
    auto ev = na::eval(v, nm::None, nm::None, na::RowMajorResolver);      // storage chosen by the library from the static traits (the resolver array::fn(...) uses)
    auto pe = project(ev);
    vj::value r = vj::value::object();
    r.set("ok", true).set("crash", "").set("traits", traits_of<V>()).set("shape", lazy["shape"]).set("elems", lazy["elems"])
     .set("dim", (long)nm::dim(v)).set("size", (long)nm::size(v)).set("eval_shape", pe["shape"]).set("eval_elems", pe["elems"]).set("eval_traits", traits_of<meta::remove_cvref_t<decltype(ev)>>());
    return r;
    }
}

template <class A> static bool admit(A& a, const std::vector<size_t>& shp) {
    if constexpr (meta::is_constant_index_array_v<typename A::shape_type>) { auto s = shape_vec(nm::shape(a)); return std::vector<long>(shp.begin(), shp.end()) == s; }
    else return a.resize(shp);
}
template <class A> static vj::value with_leaf(const vj::value& c) {
    A a; auto shp = c["shapes"][0].as_vec<size_t>();
    if (!admit(a, shp)) return crash_res("driver:shape not admitted by the leaf kind");
    size_t n = 1; for (auto x : shp) n *= x; for (size_t p = 0; p < n; p++) a.data()[p] = (long)p + 1;
    std::vector<step_t> st;
    for (size_t i = 0; i < c["prog"].size(); i++) { step_t s; s.op = c["prog"][i]["op"].as_str(); s.a = (int)c["prog"][i]["variant"].as_int(); st.push_back(s); }
    return schain<0, meta::is_clipped_index_array_v<typename A::shape_type> && !meta::is_tuple_v<typename A::shape_type>>(st, 0, a, [&](const auto& v) { if constexpr (meta::is_view_v<meta::remove_cvref_t<decltype(v)>>) return report(v); else return crash_res("driver:empty program"); });
}

static vj::value handle(const vj::value& c) {
    std::string kind = c["kind"].as_str();
    using L = long; using S = size_t;

    if (kind == "dyn") return with_leaf<na::ndarray_t<std::vector<L>, std::vector<S>>>(c);
    if (kind == "const23") return with_leaf<na::ndarray_t<std::array<L, 6>, nmtools_tuple<meta::ct<2>, meta::ct<3>>>>(c);
    if (kind == "fixdim2") return with_leaf<na::ndarray_t<std::vector<L>, std::array<S, 2>>>(c);
    if (kind == "bounddim3") return with_leaf<na::ndarray_t<std::vector<L>, nmtools_static_vector<S, 3>>>(c);
    if (kind == "clip33") return with_leaf<na::ndarray_t<nmtools_static_vector<L, 9>, nmtools_array<nm::clipped_size_t<3>, 2>>>(c);
    if (kind == "clip62t") return with_leaf<na::ndarray_t<nmtools_static_vector<L, 12>, nmtools_tuple<nm::clipped_size_t<6>, nm::clipped_size_t<2>>>>(c);
    if (kind == "boundsize6") return with_leaf<na::ndarray_t<nmtools_static_vector<L, 6>, std::array<S, 2>>>(c);
    return crash_res("kind");
}
int main(int argc, char** argv) { return run_driver(argc, argv, handle); }
