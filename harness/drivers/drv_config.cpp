// C09 driver: the same values through every container kind / static-knowledge kind.  Shape-like arguments are given as
// compile-time constant tuples, clipped integers, std::array, raw arrays, nmtools/utl static_vector, std::vector,
// utl::vector and utl::array; arrays as fixed_ndarray, hybrid_ndarray, dynamic_ndarray, nested std::array, raw arrays and
// ndarray_t kinds.  Every result is logged in the event format of the other drivers and validated against the single
// reference specification, so agreement between the kinds (and with the compile-time evaluation) follows.
#include "verif/driver.hpp"
#include "verif/arrays.hpp"
#include "nmtools/array/index/compute_strides.hpp"
#include "nmtools/array/index/compute_indices.hpp"
#include "nmtools/array/index/compute_offset.hpp"
#include "nmtools/array/index/product.hpp"
#include "nmtools/array/index/reverse.hpp"
#include "nmtools/array/index/broadcast_shape.hpp"
#include "nmtools/array/index/reshape.hpp"
#include "nmtools/array/view/transpose.hpp"
#include "nmtools/array/view/flip.hpp"
#include "nmtools/array/view/reshape.hpp"
#include "nmtools/array/view/sum.hpp"
#include "nmtools/array/view/ufuncs/add.hpp"
#include "nmtools/array/ndarray/fixed.hpp"
#include "nmtools/array/ndarray/hybrid.hpp"
#include "nmtools/array/ndarray/dynamic.hpp"
#include "nmtools/utl.hpp"

using namespace verif;
namespace ix = nmtools::index;
namespace view = nmtools::view;
using namespace nmtools::literals;

static vj::value J(std::initializer_list<long> v) { return vj::value(std::vector<long>(v)); }
static vj::value evs;   // events of the current case
static long next_id;
template <bool index_result, class R> static void emit(const std::string& op, const std::string& cfg, const vj::value& shapes, const vj::value& args, const R& r) {
    vj::value e = vj::value::object();
    vj::value res;
    if constexpr (meta::is_fail_v<R>) {
        // the library rejects the arguments at compile time (an error type is returned): same meaning as Nothing
        res = vj::value::object(); res.set("ok", false).set("crash", "").set("shape", vj::value::array()).set("elems", vj::value::array()).set("static_reject", true);
    } else if constexpr (index_result) { auto p = project_index(r); res = vj::value::object(); res.set("ok", p["ok"]).set("crash", "").set("shape", p["val"]).set("elems", vj::value::array()); }
    else { res = project(r); if (op == "add") res.set("dtype", "int"); }
    e.set("id", next_id++).set("op", op).set("cfg", cfg).set("shapes", shapes).set("args", args).set("res", res);
    if (op == "add") { vj::value d = vj::value::array(); d.push(J({1, 2, 3, 4, 5, 6})); d.push(J({1, 2, 3, 4, 5, 6})); e.set("data", d); }   // both operands are the same array
    evs.push(e);
}
static vj::value JV(const std::vector<long>& v) { return vj::value(v); }
static vj::value arr1(const vj::value& a) { vj::value r = vj::value::array(); r.push(a); return r; }
static vj::value arr2(const vj::value& a, const vj::value& b) { vj::value r = vj::value::array(); r.push(a); r.push(b); return r; }

// ---- index functions on one shape kind
template <class S> static void index_ops(const std::string& cfg, const S& shape, const std::vector<long>& sv) {
    vj::value sh = arr1(JV(sv)); vj::value none = vj::value::object(); none.set("none", true);
    emit<true>("compute_strides", cfg, sh, none, ix::compute_strides(shape));
    emit<true>("product", cfg, sh, none, ix::product(shape));
    emit<true>("reverse", cfg, sh, none, ix::reverse(shape));
    long n = 1; for (auto x : sv) n *= x;
    for (long k : {0L, n / 2, n - 1}) {
        vj::value a = vj::value::object(); a.set("k", k);
        emit<true>("compute_indices", cfg, sh, a, ix::compute_indices((size_t)k, shape));
    }
}
template <class S, class T> static void pair_ops(const std::string& cfg, const S& a, const T& b, const std::vector<long>& av, const std::vector<long>& bv) {
    vj::value none = vj::value::object(); none.set("none", true);
    emit<true>("broadcast_shape", cfg, arr2(JV(av), JV(bv)), none, ix::broadcast_shape(a, b));
    emit<true>("broadcast_shape", cfg + "/swapped", arr2(JV(bv), JV(av)), none, ix::broadcast_shape(b, a));
}
template <class S, class D> static void reshape_ops(const std::string& cfg, const S& s, const D& d, const std::vector<long>& sv, const std::vector<long>& dv) {
    vj::value a = vj::value::object(); a.set("dst", JV(dv));
    emit<true>("shape_reshape", cfg, arr1(JV(sv)), a, ix::shape_reshape(s, d));
}
// ---- views on one array kind (shape (2,3), data 1..6)
template <class A> static void view_ops(const std::string& cfg, const A& a) {
    vj::value sh = arr1(J({2, 3})); vj::value none = vj::value::object(); none.set("none", true);
    { vj::value g = vj::value::object(); g.set("axes", vj::value::array()); emit<false>("transpose", cfg, sh, g, view::transpose(a, nm::None)); }
    { vj::value g = vj::value::object(); vj::value ax = vj::value::array(); ax.push(J({1, 0})); g.set("axes", ax); emit<false>("transpose", cfg + "/ct_axes", sh, g, view::transpose(a, nmtools_tuple{1_ct, 0_ct}));
      emit<false>("transpose", cfg + "/rt_axes", sh, g, view::transpose(a, std::array<int, 2>{1, 0})); }
    { vj::value g = vj::value::object(); vj::value ax = vj::value::array(); ax.push(J({1})); g.set("axis", ax).set("int", true); emit<false>("flip", cfg + "/ct_axis", sh, g, view::flip(a, 1_ct)); emit<false>("flip", cfg + "/rt_axis", sh, g, view::flip(a, 1)); }
    { vj::value g = vj::value::object(); g.set("dst", J({3, 2})); emit<false>("reshape", cfg + "/ct_dst", sh, g, view::reshape(a, nmtools_tuple{3_ct, 2_ct})); emit<false>("reshape", cfg + "/rt_dst", sh, g, view::reshape(a, std::vector<int>{3, 2}));
      emit<false>("reshape", cfg + "/arr_dst", sh, g, view::reshape(a, std::array<int, 2>{3, 2})); }
    { vj::value g = vj::value::object(); vj::value ax = vj::value::array(); ax.push(J({0})); g.set("axis", ax).set("axis_int", true).set("initial", vj::value::array()).set("keepdims", "F");
      emit<false>("sum", cfg + "/ct_axis", sh, g, view::sum(a, 0_ct)); emit<false>("sum", cfg + "/rt_axis", sh, g, view::sum(a, 0)); }
    emit<false>("add", cfg, arr2(J({2, 3}), J({2, 3})), none, view::add(a, a));
}

#define NM_TUPLE_CT(...) nmtools_tuple{__VA_ARGS__}
static vj::value handle(const vj::value& c) {
    evs = vj::value::array(); next_id = c["id"].as_int() * 1000;
    std::string group = c["group"].as_str();
    if (group == "index") {
        // one value set per case, every kind
        #define SHAPE_CASE(NAME, N, CT, ...) if (c["name"].as_str() == NAME) { \
            std::vector<long> sv{__VA_ARGS__}; \
            index_ops("ct", CT, sv); \
            index_ops("std_array", std::array<size_t, N>{__VA_ARGS__}, sv); \
            index_ops("std_array_int", std::array<int, N>{__VA_ARGS__}, sv); \
            { size_t raw[N] = {__VA_ARGS__}; index_ops("raw", raw, sv); } \
            index_ops("clipped", nmtools_array<nm::clipped_size_t<6>, N>{__VA_ARGS__}, sv); \
            { nmtools_static_vector<size_t, 8> x; x.resize(N); size_t t[N] = {__VA_ARGS__}; for (size_t i = 0; i < N; i++) x[i] = t[i]; index_ops("static_vector", x, sv); } \
            { nmtools::utl::static_vector<size_t, 8> x; x.resize(N); size_t t[N] = {__VA_ARGS__}; for (size_t i = 0; i < N; i++) x[i] = t[i]; index_ops("utl_static_vector", x, sv); } \
            { nmtools::utl::vector<size_t> x; x.resize(N); size_t t[N] = {__VA_ARGS__}; for (size_t i = 0; i < N; i++) x[i] = t[i]; index_ops("utl_vector", x, sv); } \
            index_ops("utl_array", nmtools::utl::array<size_t, N>{__VA_ARGS__}, sv); \
            index_ops("std_vector", std::vector<size_t>{__VA_ARGS__}, sv); \
            index_ops("std_vector_int", std::vector<int>{__VA_ARGS__}, sv); \
            index_ops("tuple_rt", nmtools_tuple<TUPLE_ELEMS_##N>{__VA_ARGS__}, sv); }
        #define TUPLE_ELEMS_1 size_t
        #define TUPLE_ELEMS_2 size_t, size_t
        #define TUPLE_ELEMS_3 size_t, size_t, size_t
        #define TUPLE_ELEMS_4 size_t, size_t, size_t, size_t
        SHAPE_CASE("s232", 3, (nmtools_tuple{2_ct, 3_ct, 2_ct}), 2, 3, 2)
        SHAPE_CASE("s31", 2, (nmtools_tuple{3_ct, 1_ct}), 3, 1)
        SHAPE_CASE("s4", 1, (nmtools_tuple{4_ct}), 4)
        SHAPE_CASE("s1231", 4, (nmtools_tuple{1_ct, 2_ct, 3_ct, 1_ct}), 1, 2, 3, 1)
        SHAPE_CASE("s25", 2, (nmtools_tuple{2_ct, 5_ct}), 2, 5)
    }
    if (group == "pairs") {
        // mixed kinds: constant with dynamic, clipped with fixed, ...
        #define PAIR_CASE(NAME, CTCT, NA, CTA, AV, NB, CTB, BV) if (c["name"].as_str() == NAME) { \
            std::vector<long> av AV; std::vector<long> bv BV; \
            std::array<size_t, NA> aa AV; std::array<size_t, NB> ba BV; std::vector<size_t> avv AV; std::vector<size_t> bvv BV; \
            nmtools_array<nm::clipped_size_t<6>, NA> ac AV; nmtools_array<nm::clipped_size_t<6>, NB> bc BV; \
            if constexpr (CTCT) pair_ops("ct_ct", CTA, CTB, av, bv); \
            pair_ops("ct_vec", CTA, bvv, av, bv); pair_ops("ct_arr", CTA, ba, av, bv); pair_ops("arr_arr", aa, ba, av, bv); \
            pair_ops("arr_vec", aa, bvv, av, bv); pair_ops("vec_vec", avv, bvv, av, bv); pair_ops("clip_arr", ac, ba, av, bv); pair_ops("clip_clip", ac, bc, av, bv); pair_ops("clip_ct", ac, CTB, av, bv); pair_ops("clip_vec", ac, bvv, av, bv); }
        PAIR_CASE("p1", true, 2, (nmtools_tuple{2_ct, 3_ct}), ({2, 3}), 1, (nmtools_tuple{3_ct}), ({3}))
        PAIR_CASE("p2", true, 3, (nmtools_tuple{2_ct, 1_ct, 3_ct}), ({2, 1, 3}), 2, (nmtools_tuple{4_ct, 1_ct}), ({4, 1}))
        PAIR_CASE("p3", false, 2, (nmtools_tuple{2_ct, 3_ct}), ({2, 3}), 2, (nmtools_tuple{3_ct, 2_ct}), ({3, 2}))
        PAIR_CASE("p4", true, 1, (nmtools_tuple{1_ct}), ({1}), 3, (nmtools_tuple{2_ct, 2_ct, 2_ct}), ({2, 2, 2}))
        PAIR_CASE("p5", true, 2, (nmtools_tuple{4_ct, 1_ct}), ({4, 1}), 2, (nmtools_tuple{1_ct, 3_ct}), ({1, 3}))
        PAIR_CASE("p6", false, 2, (nmtools_tuple{4_ct, 2_ct}), ({4, 2}), 2, (nmtools_tuple{1_ct, 3_ct}), ({1, 3}))
    }
    if (group == "reshape") {
        #define RESHAPE_CASE(NAME, NS, CTS, SV, ND, CTD, DV) if (c["name"].as_str() == NAME) { \
            std::vector<long> sv SV; std::vector<long> dv DV; std::array<size_t, NS> sa SV; std::vector<size_t> svv SV; std::array<int, ND> da DV; std::vector<int> dvv DV; \
            reshape_ops("ct_ct", CTS, CTD, sv, dv); reshape_ops("ct_vec", CTS, dvv, sv, dv); reshape_ops("arr_arr", sa, da, sv, dv); reshape_ops("vec_vec", svv, dvv, sv, dv); reshape_ops("arr_ct", sa, CTD, sv, dv); reshape_ops("vec_arr", svv, da, sv, dv); }
        RESHAPE_CASE("r1", 3, (nmtools_tuple{2_ct, 3_ct, 2_ct}), ({2, 3, 2}), 2, (nmtools_tuple{3_ct, 4_ct}), ({3, 4}))
        RESHAPE_CASE("r2", 2, (nmtools_tuple{2_ct, 3_ct}), ({2, 3}), 1, (nmtools_tuple{6_ct}), ({6}))
        RESHAPE_CASE("r3", 2, (nmtools_tuple{2_ct, 3_ct}), ({2, 3}), 2, (nmtools_tuple{4_ct, 2_ct}), ({4, 2}))
        RESHAPE_CASE("r4", 1, (nmtools_tuple{12_ct}), ({12}), 3, (nmtools_tuple{2_ct, 3_ct, 2_ct}), ({2, 3, 2}))
    }
    if (group == "views") {
        long raw[2][3] = {{1, 2, 3}, {4, 5, 6}};
        std::array<std::array<long, 3>, 2> nested = {{{1, 2, 3}, {4, 5, 6}}};
        na::fixed_ndarray<long, 2, 3> fixed; na::hybrid_ndarray<long, 6, 2> hybrid; na::dynamic_ndarray<long> dynamic;
        hybrid.resize(std::array<size_t, 2>{2, 3}); dynamic.resize(2, 3);
        for (size_t i = 0; i < 2; i++) for (size_t j = 0; j < 3; j++) { fixed(i, j) = raw[i][j]; hybrid(i, j) = raw[i][j]; dynamic(i, j) = raw[i][j]; }
        std::string name = c["name"].as_str();
        if (name == "raw") view_ops("raw", raw);
        if (name == "nested") view_ops("nested_std_array", nested);
        if (name == "fixed") view_ops("fixed_ndarray", fixed);
        if (name == "hybrid") view_ops("hybrid_ndarray", hybrid);
        if (name == "dynamic") view_ops("dynamic_ndarray", dynamic);
        if (name == "nd_dyn") { auto a = make_leaf<long>({2, 3}, 0); view_ops("ndarray_dyn", a); }
        if (name == "nd_const") { na::ndarray_t<std::array<long, 6>, nmtools_tuple<meta::ct<2>, meta::ct<3>>> a; for (size_t p = 0; p < 6; p++) a.data()[p] = p + 1; view_ops("ndarray_const", a); }
        if (name == "nd_fixdim") { na::ndarray_t<std::vector<long>, std::array<size_t, 2>> a; a.resize(std::array<size_t, 2>{2, 3}); for (size_t p = 0; p < 6; p++) a.data()[p] = p + 1; view_ops("ndarray_fixdim", a); }
        if (name == "nd_bounded") { na::ndarray_t<nmtools_static_vector<long, 6>, nmtools_static_vector<size_t, 2>> a; a.resize(std::array<size_t, 2>{2, 3}); for (size_t p = 0; p < 6; p++) a.data()[p] = p + 1; view_ops("ndarray_bounded", a); }
    }
    vj::value r = vj::value::object(); r.set("__events", evs); return r;
}
int main(int argc, char** argv) { return run_driver(argc, argv, handle); }
