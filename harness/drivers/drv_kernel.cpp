// C13 driver: host execution of the per-thread device kernel body.  The body of the CUDA/HIP kernel entry
// (cuda/context.hpp: create_mutable_array from (pointer, shape pointer, dim); fn::apply(function, operands);
// assign_result(output, result, thread_id, block_id, block_size)) is transcribed below and executed once per
// scheduled thread, in the order of a TLC-generated schedule, on the function composition and leaf operands extracted
// from a run-time chosen view program.  Operands are rebuilt from raw (pointer, shape, dim) triples in the CUDA/HIP way
// (device_array objects) or in the SYCL/OpenCL way (create_array views).
#include "verif/program.hpp"
#include "nmtools/array/view/ufuncs/negative.hpp"
#include "nmtools/array/view/ufuncs/square.hpp"
#include "nmtools/array/view/ufuncs/add.hpp"
#include "nmtools/array/view/ufuncs/subtract.hpp"
#include "nmtools/array/functional/ufuncs/negative.hpp"
#include "nmtools/array/functional/ufuncs/square.hpp"
#include "nmtools/array/functional/ufuncs/add.hpp"
#include "nmtools/array/functional/ufuncs/subtract.hpp"
#include "nmtools/array/functional.hpp"
#include "nmtools/array/eval/kernel_helper.hpp"
#include "nmtools/utility/tuple_cat.hpp"

namespace fn = nmtools::functional;
using dev_shape_t = nmtools_static_vector<size_t, 8>;

template <class F, class out_t, class shp_t, class dim_t, class ops_t>
static void run_thread(const F& f, out_t* out, const shp_t* shape_ptr, dim_t dim, const ops_t& operands, size_t tid, size_t bid, size_t bsize) {
    auto output = na::create_mutable_array(out, shape_ptr, dim);
    auto result = fn::apply(f, operands);
    auto thread_id = na::kernel_size<size_t>{{tid, 0, 0}};
    auto block_id = na::kernel_size<size_t>{{bid, 0, 0}};
    auto block_size = na::kernel_size<size_t>{{bsize, 1, 1}};
    na::assign_result(output, result, thread_id, block_id, block_size);
}

template <class V> static vj::value kernel_sim(const vj::value& c, const V& v) {
    if constexpr (!meta::is_view_v<V>) return crash_res("driver:empty program");
    else {
    vj::value evs = vj::value::array();
    long id = c["id"].as_int();
    bool opencl_style = c["variant"].as_str() == "opencl";
    auto f = fn::get_function_composition(v);
    const auto& operands = fn::get_function_operands(v);
    constexpr auto N = meta::len_v<meta::remove_cvref_t<decltype(operands)>>;
    // copies of the operand buffers and shapes play the role of device memory
    std::vector<std::vector<long>> dev_data(N); std::vector<std::vector<size_t>> dev_shape(N);
    meta::template_for<N>([&](auto I) {
        const auto& arg = nmtools::get<decltype(I)::value>(operands);
        using A = meta::remove_cvref_t<decltype(arg)>;
        if constexpr (!meta::is_num_v<A>) {
            const auto& arr = *arg; auto shp = shape_vec(nm::shape(arr)); size_t n = 1; for (auto x : shp) n *= x;
            dev_shape[decltype(I)::value] = std::vector<size_t>(shp.begin(), shp.end());
            dev_data[decltype(I)::value] = std::vector<long>(nm::data(arr), nm::data(arr) + n);
        }
    });
    auto shp = shape_vec(nm::shape(v)); std::vector<size_t> oshape(shp.begin(), shp.end());
    size_t size = 1; for (auto x : oshape) size *= x;
    const size_t G = 4; std::vector<long> buf(size + 2 * G, -777);
    long* out = buf.data() + G;
    size_t dim = oshape.size();
    { vj::value b = vj::value::object(); b.set("e", "kbegin").set("id", id).set("shapes", c["shapes"]).set("prog", c["prog"]).set("bs", c["bs"]).set("grid", c["grid"]).set("size", (long)size).set("oshape", vj::value(shp)).set("nothing", false); evs.push(b); }
    auto run_all = [&](const auto& dev_ops) {
        const auto& sched = c["sched"];
        size_t bs = (size_t)c["bs"].as_int();
        for (size_t k = 0; k < sched.size(); k++) {
            size_t b = (size_t)sched[k][0].as_int(), t = (size_t)sched[k][1].as_int();
            std::vector<long> before = buf;
            run_thread(f, out, oshape.data(), dim, dev_ops, t, b, bs);
            std::vector<long> changed; bool guard_ok = true;
            for (size_t p = 0; p < buf.size(); p++) if (buf[p] != before[p]) { if (p < G || p >= G + size) guard_ok = false; else changed.push_back((long)(p - G)); }
            vj::value e = vj::value::object();
            e.set("e", "kthread").set("id", id).set("b", (long)b).set("t", (long)t).set("changed", vj::value(changed)).set("guard_ok", guard_ok);
            evs.push(e);
        }
    };
    if (!opencl_style) {
        auto dev_ops = meta::template_reduce<N>([&](auto init, auto I) {
            constexpr auto i = decltype(I)::value;
            const auto& arg = nmtools::get<i>(operands);
            using A = meta::remove_cvref_t<decltype(arg)>;
            if constexpr (meta::is_num_v<A>) return nmtools::utility::tuple_append(init, arg);
            else {
                dev_shape_t s; s.resize(dev_shape[i].size()); for (size_t q = 0; q < dev_shape[i].size(); q++) s[q] = dev_shape[i][q];
                return nmtools::utility::tuple_append(init, na::device_array<long, dev_shape_t, size_t>(dev_data[i].data(), s, dev_shape[i].size()));
            }
        }, nmtools_tuple<>{});
        run_all(dev_ops);
    } else {
        auto dev_ops = meta::template_reduce<N>([&](auto init, auto I) {
            constexpr auto i = decltype(I)::value;
            const auto& arg = nmtools::get<i>(operands);
            using A = meta::remove_cvref_t<decltype(arg)>;
            if constexpr (meta::is_num_v<A>) return nmtools::utility::tuple_append(init, arg);
            else return nmtools::utility::tuple_append(init, na::create_array((const long*)dev_data[i].data(), (const size_t*)dev_shape[i].data(), (size_t)dev_shape[i].size()));
        }, nmtools_tuple<>{});
        run_all(dev_ops);
    }
    bool guard_ok = true; for (size_t p = 0; p < G; p++) if (buf[p] != -777 || buf[G + size + p] != -777) guard_ok = false;
    vj::value e = vj::value::object();
    e.set("e", "kend").set("id", id).set("out", vj::value(std::vector<long>(out, out + size))).set("guard_ok", guard_ok);
    evs.push(e);
    vj::value r = vj::value::object(); r.set("__events", evs); return r;
    }
}

// "chain3" cases: f3(f2(f1(a))) over {negative, square, add b, subtract b} (depth-3 view types without the depth-3 program binaries)
template <int Level, class V> static vj::value chain3(const vj::value& c, const std::vector<std::string>& ops, const V& v, const dyn_t<long>& b) {
    if constexpr (meta::is_maybe_v<V>) { if (!static_cast<bool>(v)) { auto n = nothing_res(); n.set("maybe", true); return n; } return chain3<Level>(c, ops, *v, b); }
    else if constexpr (Level == 3) return kernel_sim(c, v);
    else {
        const std::string& o = ops[Level];
        if (o == "negative") return chain3<Level + 1>(c, ops, nmtools::view::negative(v), b);
        if (o == "square") return chain3<Level + 1>(c, ops, nmtools::view::square(v), b);
        if (o == "add") return chain3<Level + 1>(c, ops, nmtools::view::add(v, b), b);
        return chain3<Level + 1>(c, ops, nmtools::view::subtract(v, b), b);
    }
}

static vj::value handle(const vj::value& c) {
#if !defined(FIRST_IDX) || FIRST_IDX == 0
    if (c.has("chain3")) {
        auto a = make_leaf<long>(c["shapes"][0].as_vec<long>(), 0);
        auto b = make_data<long>(c["chain3"]["bshape"].as_vec<long>(), c["chain3"]["bdata"].as_vec<long>());
        std::vector<std::string> ops; for (size_t i = 0; i < 3; i++) ops.push_back(c["prog"][i]["op"].as_str());
        return chain3<0>(c, ops, a, b);
    }
#endif
    std::vector<step_t> st;
    for (size_t i = 0; i < c["prog"].size(); i++) st.push_back(parse_step(c["prog"][i], (long)i + 1));
    auto a = make_leaf<long>(c["shapes"][0].as_vec<long>(), 0);
    auto r = chain<0>(st, 0, st.size(), a, [&](const auto& v) { return kernel_sim(c, v); });
    if (!r.has("__events")) {
        // the program is invalid (Nothing) or could not be run: a single event
        vj::value evs = vj::value::array(); vj::value b = vj::value::object();
        b.set("e", "kbegin").set("id", c["id"]).set("shapes", c["shapes"]).set("prog", c["prog"]).set("bs", c["bs"]).set("grid", c["grid"]).set("size", 0L).set("oshape", vj::value::array())
         .set("nothing", !r["ok"].as_bool() && r["crash"].as_str() == "").set("crash", r["crash"]);
        evs.push(b); vj::value rr = vj::value::object(); rr.set("__events", evs); return rr;
    }
    return r;
}
int main(int argc, char** argv) { return run_driver(argc, argv, handle); }
