// C10 driver: programs (chains of views chosen at run time from TLC-generated behaviours) over dynamic arrays.
// Each program is executed lazily (element access through the composed view), eagerly with the row-major and the
// column-major result resolver, into a caller-supplied output (of the right shape and of a wrong one), and staged (inner view evaluated to a concrete array
// first, outer operations applied to it).  Operations are dispatched in continuation-passing style so that the
// composed view type is built by the compiler for every program of the alphabet up to depth MAXD.
#include "verif/program.hpp"

template <class V> static vj::value finish(const std::string& variant, const V& v) {
    if (variant == "lazy") return project(v);
    if (variant == "eval_c") return project(na::eval(v, nm::None, nm::None, na::RowMajorResolver));
    if (variant == "eval_f") return project(na::eval(v, nm::None, nm::None, na::ColumnMajorResolver));
    if (variant == "into") {
        // caller-supplied output of the right shape, pre-filled with a sentinel
        auto shp = shape_vec(nm::shape(v)); dyn_t<long> out; std::vector<size_t> s(shp.begin(), shp.end()); out.resize(s);
        size_t n = 1; for (auto x : s) n *= x; for (size_t p = 0; p < n; p++) out.data()[p] = -424242;
        na::eval(v, nm::None, out);
        return project(out);
    }
    if (variant == "into_wrong") {
        // caller-supplied output with the view's dimension and element count but other extents (the reversed shape): eval either
        // refuses it (output untouched - then the view itself is reported) or makes it the view; an output that was modified is
        // reported as it is and has to be the view (shape and every element)
        auto shp = shape_vec(nm::shape(v)); std::vector<long> rv(shp.rbegin(), shp.rend());
        if (rv == shp) return crash_res("driver:unsupported");
        dyn_t<long> out; std::vector<size_t> s(rv.begin(), rv.end()); out.resize(s);
        size_t n = 1; for (auto x : s) n *= x; for (size_t p = 0; p < n; p++) out.data()[p] = -424242;
        na::eval(v, nm::None, out);
        bool untouched = shape_vec(nm::shape(out)) == rv;
        for (size_t p = 0; untouched && p < n; p++) if (out.data()[p] != -424242) untouched = false;
        if (untouched) return project(v);
        return project(out);
    }
    return crash_res("driver:variant");
}

static vj::value handle(const vj::value& c) {
    std::vector<step_t> st;
    for (size_t i = 0; i < c["prog"].size(); i++) st.push_back(parse_step(c["prog"][i], (long)i + 1));
    auto a = make_leaf<long>(c["shapes"][0].as_vec<long>(), 0);
    std::string variant = c["variant"].as_str();
    size_t n = st.size();
    if (variant.rfind("staged", 0) == 0) {
        size_t cut = (size_t)(variant.back() - '0');          // stage after the first `cut` operations
        return chain<0>(st, 0, cut, a, [&](const auto& inner) -> vj::value {
            auto staged = na::eval(inner, nm::None, nm::None, na::RowMajorResolver);
            using S = meta::remove_cvref_t<decltype(staged)>;
            if constexpr (std::is_same_v<S, dyn_t<long>>) return chain<1>(st, cut, n, staged, [&](const auto& v) { return project(v); });
            else { dyn_t<long> copy; auto shp = shape_vec(nm::shape(staged)); std::vector<size_t> s(shp.begin(), shp.end()); copy.resize(s);
                   auto p = project(staged); for (size_t q = 0; q < p["elems"].size(); q++) copy.data()[q] = p["elems"][q].as_int();
                   return chain<1>(st, cut, n, copy, [&](const auto& v) { return project(v); }); }
        });
    }
    return chain<0>(st, 0, n, a, [&](const auto& v) { return finish(variant, v); });
}
int main(int argc, char** argv) { return run_driver(argc, argv, handle); }
