// C10 driver: programs (chains of views chosen at run time from TLC-generated behaviours) over dynamic arrays.
// Each program is executed lazily (element access through the composed view), eagerly with the row-major and the
// column-major result resolver, into a caller-supplied output, and staged (inner view evaluated to a concrete array
// first, outer operations applied to it).  Operations are dispatched in continuation-passing style so that the
// composed view type is built by the compiler for every program of the alphabet up to depth MAXD.
#include "verif/driver.hpp"
#include "verif/arrays.hpp"
#include "nmtools/array/eval.hpp"
#include "nmtools/array/view/transpose.hpp"
#include "nmtools/array/view/flip.hpp"
#include "nmtools/array/view/reshape.hpp"
#include "nmtools/array/view/tile.hpp"
#include "nmtools/array/view/roll.hpp"
#include "nmtools/array/view/expand_dims.hpp"
#include "nmtools/array/view/pad.hpp"
#include "nmtools/array/view/ufunc.hpp"

#ifndef MAXD
#define MAXD 3
#endif

using namespace verif;
namespace view = nmtools::view;

struct mix_t { template <class T, class U> constexpr auto operator()(const T& a, const U& b) const { return (long)((((31 * (long)a + 17 * (long)b + 7) % 10007) + 10007) % 10007); } };

struct step_t { std::string op; std::vector<int> iv; std::vector<size_t> uv; int a = 0, b = 0; dyn_t<long> leaf; };

static step_t parse_step(const vj::value& s, long leaf_id) {
    step_t r; r.op = s["op"].as_str(); const auto& g = s["args"];
    if (r.op == "transpose") { if (g["axes"].size()) r.iv = g["axes"][0].as_vec<int>(); else r.a = -99; }
    else if (r.op == "flip") r.a = (int)g["axis"][0][0].as_int();
    else if (r.op == "reshape") r.iv = g["dst"].as_vec<int>();
    else if (r.op == "tile") r.uv = g["reps"].as_vec<size_t>();
    else if (r.op == "roll") { r.a = (int)g["shift"][0].as_int(); r.b = (int)g["axis"][0][0].as_int(); }
    else if (r.op == "expand_dims") r.a = (int)g["axis"][0].as_int();
    else if (r.op == "pad") r.uv = g["widths"].as_vec<size_t>();
    else if (r.op == "reduce_mix") r.a = (int)g["axis"][0][0].as_int();
    else if (r.op == "mix") r.leaf = make_leaf<long>(s["shapes"][1].as_vec<long>(), 1);   // second operand of a step is always "operand 1" of that step
    return r;
}

// Which operations are compiled at which level (position in the program).  -DFIRST_IDX=k restricts level 0 to one
// operation so that the alphabet^depth instantiations can be spread over parallel compilations; levels >= 2 use the
// first SMALL operations only.
#ifndef SMALL
#define SMALL 6
#endif
template <int Level> constexpr bool on(int idx) {
#ifdef FIRST_IDX
    if (Level == 0) return idx == FIRST_IDX;
#endif
    if (Level >= 2) return idx < SMALL;
    return true;
}

// apply one step to v (an array or a view, never a maybe) and pass the resulting view on
template <int Level, class V, class K> static vj::value apply_step(const step_t& s, const V& v, K&& k) {
    auto cont = [&](const auto& r) -> vj::value {
        using R = meta::remove_cvref_t<decltype(r)>;
        if constexpr (meta::is_maybe_v<R>) { if (!static_cast<bool>(r)) { auto n = nothing_res(); n.set("maybe", true); return n; } return k(*r); }
        else return k(r);
    };
    if constexpr (on<Level>(0)) if (s.op == "transpose") { if (s.a == -99) return cont(view::transpose(v, nm::None)); return cont(view::transpose(v, s.iv)); }
    if constexpr (on<Level>(1)) if (s.op == "flip") return cont(view::flip(v, s.a));
    if constexpr (on<Level>(2)) if (s.op == "reshape") return cont(view::reshape(v, s.iv));
    if constexpr (on<Level>(3)) if (s.op == "tile") return cont(view::tile(v, s.uv));
    if constexpr (on<Level>(4)) if (s.op == "reduce_mix") return cont(view::reduce(mix_t{}, v, s.a, nm::None, nm::None, nm::False));
    if constexpr (on<Level>(5)) if (s.op == "mix") return cont(view::broadcast_binary_ufunc(mix_t{}, v, s.leaf));
    if constexpr (on<Level>(6)) if (s.op == "roll") return cont(view::roll(v, s.a, s.b));
    if constexpr (on<Level>(7)) if (s.op == "expand_dims") return cont(view::expand_dims(v, s.a));
    if constexpr (on<Level>(8)) if (s.op == "pad") return cont(view::pad(v, s.uv, (long)-7));
    return crash_res("driver:operation not compiled at this position: " + s.op);
}

template <int Level, class V, class K> static vj::value chain(const std::vector<step_t>& st, size_t i, size_t n, const V& v, K&& k) {
    if (i == n) return k(v);
    if constexpr (Level >= MAXD) return crash_res("driver:program deeper than the compiled depth");
    else return apply_step<Level>(st[i], v, [&](const auto& r) { return chain<Level + 1>(st, i + 1, n, r, k); });
}

template <class V> static vj::value finish(const std::string& variant, const V& v) {
    if (variant == "lazy") return project(v);
    if (variant == "eval_c") return project(na::eval(v, nm::None, nm::None, na::RowMajorResolver));
    if (variant == "eval_f") return project(na::eval(v, nm::None, nm::None, na::ColumnMajorResolver));
    if (variant == "into") {
        // caller-supplied output of the right shape, pre-filled with a sentinel
        auto shp = shape_vec(nm::shape(v)); dyn_t<long> out; std::vector<size_t> s(shp.begin(), shp.end()); out.resize(s);
        size_t n = 1; for (auto x : s) n *= x; for (size_t p = 0; p < n; p++) out.data()[p] = -424242;
        na::eval(v, nm::None, out);
        return project(out);
    }
    return crash_res("driver:variant");
}

static vj::value handle(const vj::value& c) {
    std::vector<step_t> st;
    for (size_t i = 0; i < c["prog"].size(); i++) st.push_back(parse_step(c["prog"][i], (long)i + 1));
    auto a = make_leaf<long>(c["shapes"][0].as_vec<long>(), 0);
    std::string variant = c["variant"].as_str();
    size_t n = st.size();
    if (variant.rfind("staged", 0) == 0) {
        size_t cut = (size_t)(variant.back() - '0');          // stage after the first `cut` operations
        return chain<0>(st, 0, cut, a, [&](const auto& inner) -> vj::value {
            auto staged = na::eval(inner, nm::None, nm::None, na::RowMajorResolver);
            using S = meta::remove_cvref_t<decltype(staged)>;
            if constexpr (std::is_same_v<S, dyn_t<long>>) return chain<1>(st, cut, n, staged, [&](const auto& v) { return project(v); });
            else { dyn_t<long> copy; auto shp = shape_vec(nm::shape(staged)); std::vector<size_t> s(shp.begin(), shp.end()); copy.resize(s);
                   auto p = project(staged); for (size_t q = 0; q < p["elems"].size(); q++) copy.data()[q] = p["elems"][q].as_int();
                   return chain<1>(st, cut, n, copy, [&](const auto& v) { return project(v); }); }
        });
    }
    return chain<0>(st, 0, n, a, [&](const auto& v) { return finish(variant, v); });
}
int main(int argc, char** argv) { return run_driver(argc, argv, handle); }
