// C14 driver: compute graphs of view expressions that are DAGs (a leaf or a sub-expression with several consumers).
// Each case names one expression of a fixed menu over the aliased leaves x (id 0) and y (id 1).  The driver builds the
// expression, records its terms [id, args] from the view objects it constructed (ids are the views' own id_type) and
// reports the extracted graph as a canonical listing: shape = [#nodes, #edges, #duplicate node keys], elems = node ids
// ascending followed by the edges (source, target) ascending and the operand list (id, count, operands in order) of every function node.  ComputeGraph.tla defines the graph of the terms.
#include "verif/driver.hpp"
#include "verif/arrays.hpp"
#include "nmtools/array/view/alias.hpp"
#include "nmtools/array/view/ufuncs/exp.hpp"
#include "nmtools/array/view/ufuncs/tanh.hpp"
#include "nmtools/array/view/ufuncs/add.hpp"
#include "nmtools/array/view/ufuncs/subtract.hpp"
#include "nmtools/array/view/ufuncs/multiply.hpp"
#include "nmtools/array/view/ufuncs/divide.hpp"
#include "nmtools/array/view/transpose.hpp"
#include "nmtools/array/view/flatten.hpp"
#include "nmtools/array/view/concatenate.hpp"
#include "nmtools/array/view/matmul.hpp"
#include "nmtools/array/functional/functor.hpp"
#include "nmtools/array/functional/compute_graph.hpp"
#include "nmtools/array/functional/ufunc/ufunc.hpp"
#include "nmtools/array/functional/ufunc/reduce.hpp"
#include "nmtools/array/functional/ufuncs/exp.hpp"
#include "nmtools/array/functional/ufuncs/tanh.hpp"
#include "nmtools/array/functional/ufuncs/add.hpp"
#include "nmtools/array/functional/ufuncs/subtract.hpp"
#include "nmtools/array/functional/ufuncs/multiply.hpp"
#include "nmtools/array/functional/ufuncs/divide.hpp"
#include "nmtools/array/functional/transpose.hpp"
#include "nmtools/array/functional/flatten.hpp"
#include "nmtools/array/functional/concatenate.hpp"
#include "nmtools/array/functional/matmul.hpp"
#include <set>
#include <algorithm>
using namespace verif;
namespace view = nmtools::view; namespace fn = nmtools::functional;
using namespace nmtools::literals; using nm::unwrap; using nm::None; using nm::True;

template <class V> static long id_of(const V&) { return (long)meta::remove_cvref_t<V>::id_type::value; }
struct term { long id; std::vector<long> args; };
static vj::value g_terms;
template <class V> static vj::value graph_of(const V& v, const std::vector<term>& terms) {
    g_terms = vj::value::array();
    for (auto& t : terms) { vj::value o = vj::value::object(); o.set("id", t.id).set("args", vj::value(t.args)); g_terms.push(o); }
    auto g = unwrap(fn::get_compute_graph(v));
    auto nodes = g.nodes(); auto edges = g.out_edges();
    constexpr auto NN = meta::len_v<decltype(nodes)>; constexpr auto NE = meta::len_v<decltype(edges)>;
    std::vector<long> ns; std::set<std::pair<long, long>> es;
    meta::template_for<NN>([&](auto I) { auto key = nmtools::get<decltype(I)::value>(nodes); ns.push_back((long)meta::remove_cvref_t<decltype(key)>::value); });
    meta::template_for<NE>([&](auto J) { auto e = nmtools::get<decltype(J)::value>(edges);
        es.insert({(long)meta::remove_cvref_t<decltype(nmtools::get<0>(e))>::value, (long)meta::remove_cvref_t<decltype(nmtools::get<1>(e))>::value}); });
    // the operand list every function node carries (in operand order), nodes ascending: id, count, operand ids
    std::vector<std::vector<long>> opl;
    meta::template_for<NN>([&](auto I) {
        auto key = nmtools::get<decltype(I)::value>(nodes); auto data = g.nodes(key);
        using D = meta::remove_cvref_t<decltype(data)>;
        if constexpr (!(std::is_pointer_v<D> || meta::is_num_v<D> || meta::is_ndarray_v<D>)) {
            std::vector<long> row{(long)meta::remove_cvref_t<decltype(key)>::value};
            constexpr auto NO = meta::len_v<typename D::operands_type>;
            row.push_back((long)NO);
            meta::template_for<NO>([&](auto J) { row.push_back((long)meta::remove_cvref_t<decltype(nmtools::get<decltype(J)::value>(data.operands))>::value); });
            opl.push_back(row);
        }
    });
    std::sort(opl.begin(), opl.end());
    std::sort(ns.begin(), ns.end()); long dups = 0; for (size_t i = 1; i < ns.size(); i++) if (ns[i] == ns[i - 1]) dups++;
    ns.erase(std::unique(ns.begin(), ns.end()), ns.end());
    std::vector<long> el = ns; for (auto& p : es) { el.push_back(p.first); el.push_back(p.second); }
    for (auto& row : opl) for (auto x : row) el.push_back(x);
    vj::value r = vj::value::object();
    r.set("ok", true).set("crash", "").set("shape", vj::value(std::vector<long>{(long)ns.size(), (long)es.size(), dups})).set("elems", vj::value(el));
    return r;
}

static vj::value run(const std::string& name) {
    using array_t = dyn_t<float>;
    array_t xa = make_leaf<float>({2, 3}, 0), ya = make_leaf<float>({2, 3}, 1);
    auto x = view::alias(xa, 0_ct); auto y = view::alias(ya, 1_ct);
    auto ex = unwrap(view::exp(x)); auto s = unwrap(view::reduce_add(ex, 1, None, None, True));
    auto axy = unwrap(view::add(x, y)); auto sxy = unwrap(view::subtract(x, y)); auto mxy = unwrap(view::multiply(x, y));
    const long X = 0, Y = 1;
    if (name == "softmax") { auto v = unwrap(view::divide(ex, s)); return graph_of(v, {{id_of(ex), {X}}, {id_of(s), {id_of(ex)}}, {id_of(v), {id_of(ex), id_of(s)}}}); }
    if (name == "x_over_exp") { auto v = unwrap(view::divide(x, ex)); return graph_of(v, {{id_of(ex), {X}}, {id_of(v), {X, id_of(ex)}}}); }
    if (name == "sum_over_exp") { auto v = unwrap(view::divide(s, ex)); return graph_of(v, {{id_of(ex), {X}}, {id_of(s), {id_of(ex)}}, {id_of(v), {id_of(s), id_of(ex)}}}); }
    if (name == "exp_plus_exp") { auto v = unwrap(view::add(ex, ex)); return graph_of(v, {{id_of(ex), {X}}, {id_of(v), {id_of(ex), id_of(ex)}}}); }
    if (name == "sum_times_diff") { auto v = unwrap(view::multiply(axy, sxy)); return graph_of(v, {{id_of(axy), {X, Y}}, {id_of(sxy), {X, Y}}, {id_of(v), {id_of(axy), id_of(sxy)}}}); }
    if (name == "x_plus_x") { auto v = unwrap(view::add(x, x)); return graph_of(v, {{id_of(v), {X, X}}}); }
    if (name == "prod_plus_x") { auto v = unwrap(view::add(mxy, x)); return graph_of(v, {{id_of(mxy), {X, Y}}, {id_of(v), {id_of(mxy), X}}}); }
    if (name == "exp_minus_expy") { auto m2 = unwrap(view::multiply(ex, y)); auto v = unwrap(view::subtract(ex, m2)); return graph_of(v, {{id_of(ex), {X}}, {id_of(m2), {id_of(ex), Y}}, {id_of(v), {id_of(ex), id_of(m2)}}}); }
    if (name == "yexp_minus_exp") { auto m2 = unwrap(view::multiply(y, ex)); auto v = unwrap(view::subtract(m2, ex)); return graph_of(v, {{id_of(ex), {X}}, {id_of(m2), {Y, id_of(ex)}}, {id_of(v), {id_of(m2), id_of(ex)}}}); }
    if (name == "sum_plus_sum") { auto v = unwrap(view::add(axy, axy)); return graph_of(v, {{id_of(axy), {X, Y}}, {id_of(v), {id_of(axy), id_of(axy)}}}); }
    if (name == "gated") { auto t = unwrap(view::tanh(axy)); auto v = unwrap(view::multiply(t, axy)); return graph_of(v, {{id_of(axy), {X, Y}}, {id_of(t), {id_of(axy)}}, {id_of(v), {id_of(t), id_of(axy)}}}); }
    if (name == "gated_r") { auto t = unwrap(view::tanh(axy)); auto v = unwrap(view::multiply(axy, t)); return graph_of(v, {{id_of(axy), {X, Y}}, {id_of(t), {id_of(axy)}}, {id_of(v), {id_of(axy), id_of(t)}}}); }
    if (name == "flat_tree") { auto t = unwrap(view::transpose(x, None)); auto f = unwrap(view::flatten(t)); auto fy = unwrap(view::flatten(y)); auto v = unwrap(view::add(f, fy));
        return graph_of(v, {{id_of(t), {X}}, {id_of(f), {id_of(t)}}, {id_of(fy), {Y}}, {id_of(v), {id_of(f), id_of(fy)}}}); }
    if (name == "deep_shared") { auto t = unwrap(view::tanh(ex)); auto m = unwrap(view::multiply(t, ex)); auto v = unwrap(view::add(m, ex));
        return graph_of(v, {{id_of(ex), {X}}, {id_of(t), {id_of(ex)}}, {id_of(m), {id_of(t), id_of(ex)}}, {id_of(v), {id_of(m), id_of(ex)}}}); }
    if (name == "deep_shared_r") { auto t = unwrap(view::tanh(ex)); auto m = unwrap(view::multiply(ex, t)); auto v = unwrap(view::add(ex, m));
        return graph_of(v, {{id_of(ex), {X}}, {id_of(t), {id_of(ex)}}, {id_of(m), {id_of(ex), id_of(t)}}, {id_of(v), {id_of(ex), id_of(m)}}}); }
    // through the generic (non-ufunc) extraction path
    if (name == "cat_exp_exp") { auto v = unwrap(view::concatenate(ex, ex, 0)); return graph_of(v, {{id_of(ex), {X}}, {id_of(v), {id_of(ex), id_of(ex)}}}); }
    if (name == "cat_x_exp") { auto v = unwrap(view::concatenate(x, ex, 0)); return graph_of(v, {{id_of(ex), {X}}, {id_of(v), {X, id_of(ex)}}}); }
    if (name == "cat_exp_x") { auto v = unwrap(view::concatenate(ex, x, 0)); return graph_of(v, {{id_of(ex), {X}}, {id_of(v), {id_of(ex), X}}}); }
    if (name == "flat_plus_flat") { auto f = unwrap(view::flatten(ex)); auto v = unwrap(view::add(f, f)); return graph_of(v, {{id_of(ex), {X}}, {id_of(f), {id_of(ex)}}, {id_of(v), {id_of(f), id_of(f)}}}); }
    if (name == "matmul_xyT") { auto t = unwrap(view::transpose(y, None)); auto v = unwrap(view::matmul(x, t)); return graph_of(v, {{id_of(t), {Y}}, {id_of(v), {X, id_of(t)}}}); }
    if (name == "matmul_xxT") { auto t = unwrap(view::transpose(x, None)); auto v = unwrap(view::matmul(x, t)); return graph_of(v, {{id_of(t), {X}}, {id_of(v), {X, id_of(t)}}}); }
    if (name == "cat_flat_sum_diff") { auto f = unwrap(view::flatten(axy)); auto g2 = unwrap(view::flatten(sxy)); auto v = unwrap(view::concatenate(f, g2, 0));
        return graph_of(v, {{id_of(axy), {X, Y}}, {id_of(sxy), {X, Y}}, {id_of(f), {id_of(axy)}}, {id_of(g2), {id_of(sxy)}}, {id_of(v), {id_of(f), id_of(g2)}}}); }
    return crash_res("driver:unknown expression");
}
static vj::value handle(const vj::value& c) {
    vj::value r = run(c["name"].as_str());
    vj::value e = c; vj::value args = vj::value::object(); args.set("terms", g_terms); e.set("args", args).set("res", r);
    if (r["crash"].as_str() != "") e.set("e", "crash");
    vj::value evs = vj::value::array(); evs.push(e);
    vj::value out = vj::value::object(); out.set("__events", evs); return out;
}
int main(int argc, char** argv) { return run_driver(argc, argv, handle); }
