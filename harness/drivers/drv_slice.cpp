// C05 driver: view::slice / view::apply_slice with packed (tuple of typed parts), variadic and dynamic (list of either)
// encodings.  None-ness of slice parts is a compile-time property in nmtools, so parts are dispatched over a type menu.
#include "verif/driver.hpp"
#include "verif/arrays.hpp"
#include "nmtools/array/view/slice.hpp"
#include "nmtools/array/view/mutable_slice.hpp"

using namespace verif;
namespace view = nmtools::view;
using nm::None; using nm::Ellipsis;

struct part_t { char k; long i; bool hs, he, hp; long s, e, p; };

static std::vector<part_t> parse_parts(const vj::value& ps) {
    std::vector<part_t> r;
    for (size_t q = 0; q < ps.size(); q++) {
        const auto& p = ps[q]; part_t t{};
        t.k = p["k"].as_str()[0];
        if (t.k == 'i') t.i = p["i"].as_int();
        if (t.k == 's') {
            t.hs = p["start"].size() > 0; t.he = p["stop"].size() > 0; t.hp = p["step"].size() > 0;
            if (t.hs) t.s = p["start"][0].as_int(); if (t.he) t.e = p["stop"][0].as_int(); if (t.hp) t.p = p["step"][0].as_int();
        }
        r.push_back(t);
    }
    return r;
}

struct unsupported {};

// full menu: every None pattern of a (start,stop,step) triple and of a (start,stop) pair
template <class F> static vj::value with_slice_full(const part_t& t, bool pair, F&& f) {
    int s = (int)t.s, e = (int)t.e, p = (int)t.p;
    if (pair) {
        if (t.hp) throw unsupported{};
        if (t.hs && t.he) return f(nmtools_tuple<int, int>{s, e});
        if (t.hs && !t.he) return f(nmtools_tuple<int, nm::none_t>{s, None});
        if (!t.hs && t.he) return f(nmtools_tuple<nm::none_t, int>{None, e});
        return f(nmtools_tuple<nm::none_t, nm::none_t>{None, None});
    }
    if (t.hs && t.he && t.hp) return f(nmtools_tuple<int, int, int>{s, e, p});
    if (t.hs && t.he && !t.hp) return f(nmtools_tuple<int, int, nm::none_t>{s, e, None});
    if (t.hs && !t.he && t.hp) return f(nmtools_tuple<int, nm::none_t, int>{s, None, p});
    if (t.hs && !t.he && !t.hp) return f(nmtools_tuple<int, nm::none_t, nm::none_t>{s, None, None});
    if (!t.hs && t.he && t.hp) return f(nmtools_tuple<nm::none_t, int, int>{None, e, p});
    if (!t.hs && t.he && !t.hp) return f(nmtools_tuple<nm::none_t, int, nm::none_t>{None, e, None});
    if (!t.hs && !t.he && t.hp) return f(nmtools_tuple<nm::none_t, nm::none_t, int>{None, None, p});
    return f(nmtools_tuple<nm::none_t, nm::none_t, nm::none_t>{None, None, None});
}
template <class F> static vj::value with_slice_reduced(const part_t& t, F&& f);
// reduced menu for multi-part specifications: int, ellipsis, (N,N,N), (N,N,i), (i,i,i)
template <bool AllowEll, class F> static vj::value with_part_reduced(const part_t& t, F&& f) {
    if (t.k == 'i') return f((int)t.i, std::integral_constant<bool, AllowEll>{});
    if (t.k == 'e') { if constexpr (AllowEll) return f(Ellipsis, std::false_type{}); else throw unsupported{}; }
    auto g = [&](auto x) { return f(x, std::integral_constant<bool, AllowEll>{}); };
    return with_slice_reduced(t, g);
}
template <class F> static vj::value with_slice_reduced(const part_t& t, F&& f) {
    if (t.hs && t.he && t.hp) return f(nmtools_tuple<int, int, int>{(int)t.s, (int)t.e, (int)t.p});
    if (!t.hs && !t.he && t.hp) return f(nmtools_tuple<nm::none_t, nm::none_t, int>{None, None, (int)t.p});
    if (!t.hs && !t.he && !t.hp) return f(nmtools_tuple<nm::none_t, nm::none_t, nm::none_t>{None, None, None});
    throw unsupported{};
}

// index-level target (op slice_index): the shape function and the index map the view is built from, evaluated on a source
// shape without an array behind it, so that extents up to 2^31 are reachable.  "at" lists result indices to map.
struct index_target { std::vector<long> shape; std::vector<std::vector<long>> at; };
template <class T> static bool get_vec(const T& v, std::vector<long>& out) {
    if constexpr (meta::is_maybe_v<T>) { if (!static_cast<bool>(v)) return false; return get_vec(*v, out); }
    else { out = shape_vec(v); return true; }
}
template <class S> static vj::value index_level(const index_target& t, const S& slices) {
    auto tiny = make_leaf<long>(std::vector<long>(t.shape.size(), 1), 0);
    auto src = nm::unwrap(nm::shape<true>(tiny));          // the shape type a dynamic array hands to the slicer
    for (size_t i = 0; i < t.shape.size(); i++) nm::at(src, i) = t.shape[i];
    std::vector<long> dst, flat;
    if (!get_vec(nm::index::apply_shape_slice(src, slices), dst)) return nothing_res();
    for (const auto& k : t.at) {
        std::vector<size_t> idx(k.begin(), k.end());
        std::vector<long> srcidx;
        if (!get_vec(nm::index::apply_slice(idx, src, slices), srcidx)) return nothing_res();
        flat.insert(flat.end(), srcidx.begin(), srcidx.end());
    }
    vj::value r = vj::value::object(); r.set("ok", true).set("crash", "").set("shape", vj::value(dst)).set("elems", vj::value(flat)); return r;
}
template <class A, class S> static vj::value finish(const A& a, const S& slices) { return project(view::apply_slice(a, slices)); }
template <class S> static vj::value finish(const index_target& t, const S& slices) { return index_level(t, slices); }

// variadic: 0 = packed tuple through apply_slice, 1 = view::slice(a, parts...), 2 = view::mutable_slice(a, parts...) (the writable
// front end must denote the same view; its write side is C20's business)
template <class A, class... P> static vj::value leaf(const A& a, int variadic, const P&... p) {
    if constexpr (std::is_same_v<A, index_target>) return index_level(a, nmtools_tuple<P...>{p...});
    else {
        if constexpr (sizeof...(P) >= 2) { if (variadic == 2) return project(view::mutable_slice(const_cast<A&>(a), p...)); }
        if (variadic) return project(view::slice(a, p...));
        return project(view::apply_slice(a, nmtools_tuple<P...>{p...}));
    }
}

template <class A, class P> static vj::value leaf_mut(const A& a, const P& p) {
    if constexpr (std::is_same_v<A, index_target>) throw unsupported{};
    else return project(view::mutable_slice(const_cast<A&>(a), p));
}
template <class A> static vj::value run_packed(const A& a, const std::vector<part_t>& ps, int variadic, bool pair) {
    if (ps.size() == 1) {
        const auto& t = ps[0];
        if (variadic == 2 && t.k == 'i') return leaf_mut(a, (int)t.i);
        if (variadic == 2 && t.k == 'e') return leaf_mut(a, Ellipsis);
        if (t.k == 'i') return leaf(a, variadic, (int)t.i);
        if (t.k == 'e') return leaf(a, variadic, Ellipsis);
        // the writable front end with ONE range argument: only the all-integer triple is instantiated (the shape of call that a
        // copy-deducing pack would silently turn into three integer indices; None patterns would not compile then: seed C05c)
        if (variadic == 2) { if (!(t.hs && t.he && t.hp)) throw unsupported{}; return leaf_mut(a, nmtools_tuple<int, int, int>{(int)t.s, (int)t.e, (int)t.p}); }
        return with_slice_full(t, pair, [&](auto s0) { return leaf(a, variadic, s0); });
    }
    if (ps.size() == 2)
        return with_part_reduced<true>(ps[0], [&](auto p0, auto e0) { return with_part_reduced<decltype(e0)::value>(ps[1], [&](auto p1, auto) { return leaf(a, variadic, p0, p1); }); });
    if (ps.size() == 3)
        return with_part_reduced<true>(ps[0], [&](auto p0, auto e0) { return with_part_reduced<decltype(e0)::value>(ps[1], [&](auto p1, auto e1) {
               return with_part_reduced<decltype(e1)::value>(ps[2], [&](auto p2, auto) { return leaf(a, variadic, p0, p1, p2); }); }); });
    throw unsupported{};
}

// dynamic encoding: run-time list of either<int, either<ellipsis, (start,stop,step)>>; every slice fully specified
template <class A> static vj::value run_dynamic(const A& a, const std::vector<part_t>& ps) {
    using tri_t = nmtools_tuple<int, int, int>;
    using rhs_t = nmtools_either<nm::ellipsis_t, tri_t>;
    using slice_t = nmtools_either<int, rhs_t>;
    nmtools_list<slice_t> slices;
    for (const auto& t : ps) {
        if (t.k == 'i') slices.push_back(slice_t{(int)t.i});
        else if (t.k == 'e') slices.push_back(slice_t{rhs_t{Ellipsis}});
        else { if (!(t.hs && t.he && t.hp)) throw unsupported{}; slices.push_back(slice_t{rhs_t{tri_t{(int)t.s, (int)t.e, (int)t.p}}}); }
    }
    return finish(a, slices);
}
// dynamic encoding without integers/ellipsis: list of array<int,3>
template <class A> static vj::value run_dynamic_arr(const A& a, const std::vector<part_t>& ps) {
    using tri_t = nmtools_array<int, 3>;
    nmtools_list<tri_t> slices;
    for (const auto& t : ps) { if (t.k != 's' || !(t.hs && t.he && t.hp)) throw unsupported{}; slices.push_back(tri_t{(int)t.s, (int)t.e, (int)t.p}); }
    return finish(a, slices);
}

static vj::value handle(const vj::value& c) {
    auto shp = c["shapes"][0].as_vec<long>();
    auto ps = parse_parts(c["args"]["parts"]);
    std::string enc = c["args"]["enc"].as_str();
    if (c["op"].as_str() == "slice_index") {
        index_target t; t.shape = shp;
        for (size_t q = 0; q < c["args"]["at"].size(); q++) t.at.push_back(c["args"]["at"][q].as_vec<long>());
        try {
            if (enc == "packed") return run_packed(t, ps, 0, false);
            if (enc == "packed2") return run_packed(t, ps, 0, true);
            if (enc == "dyn") return run_dynamic(t, ps);
            if (enc == "dynarr") return run_dynamic_arr(t, ps);
        } catch (unsupported&) { return crash_res("driver:unsupported encoding for this case"); }
        return crash_res("driver:unsupported encoding for this case");
    }
    auto a = make_leaf<long>(shp, 0);
    try {
        if (enc == "packed") return run_packed(a, ps, 0, false);
        if (enc == "packed2") return run_packed(a, ps, 0, true);
        if (enc == "variadic") return run_packed(a, ps, 1, false);
        if (enc == "mutable") return run_packed(a, ps, 2, false);
        if (enc == "dyn") return run_dynamic(a, ps);
        if (enc == "dynarr") return run_dynamic_arr(a, ps);
    } catch (unsupported&) { return crash_res("driver:unsupported encoding for this case"); }
    return crash_res("unknown enc");
}
int main(int argc, char** argv) { return run_driver(argc, argv, handle); }
