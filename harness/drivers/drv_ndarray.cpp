// C20 driver: interpreter of array-object histories (resize / write / copy / assign) over ndarray_t kinds and layouts.
#include "verif/driver.hpp"
#include "verif/arrays.hpp"
#include "nmtools/array/ndarray.hpp"
#include <optional>
#include <algorithm>

using namespace verif;
namespace ix = nmtools::index;

template <class A, bool CanResize> struct machine {
    A obj; std::optional<A> cpy;

    static std::vector<size_t> idx_of(const std::vector<long>& shp, long k) {
        std::vector<size_t> s(shp.begin(), shp.end()), r(s.size());
        for (long i = (long)s.size() - 1; i >= 0; i--) { r[i] = (size_t)k % s[i]; k /= (long)s[i]; }
        return r;
    }
    static void fill(A& a, long step) {
        auto shp = shape_vec(nm::shape(a)); long n = 1; for (auto x : shp) n *= x;
        for (long p = 0; p < n; p++) nm::apply_at(a, idx_of(shp, p)) = 100 * step + p;
    }
    static vj::value proj_one(const A& a) {
        auto shp = shape_vec(nm::shape(a)); long n = 1; for (auto x : shp) n *= x;
        std::vector<long> el, buf;
        bool sane = n >= 0 && n <= 4096;
        if (sane) for (long p = 0; p < n; p++) el.push_back((long)nm::apply_at(a, idx_of(shp, p)));
        long sz = (long)nm::size(a);
        if (sane && sz == n) { for (long p = 0; p < n; p++) buf.push_back((long)a.data()[p]); }
        auto se = el, sb = buf; std::sort(se.begin(), se.end()); std::sort(sb.begin(), sb.end());
        vj::value r = vj::value::object();
        r.set("live", true).set("shape", vj::value(shp)).set("dim", (long)nm::dim(a)).set("size", sz).set("elems", vj::value(el))
         .set("perm", se == sb).set("strides", vj::value(shape_vec(a.strides()))).set("ostrides", vj::value(shape_vec(a.offset_.strides_)));
        return r;
    }
    vj::value proj() {
        vj::value r = vj::value::object();
        r.set("obj", proj_one(obj));
        if (cpy) r.set("cpy", proj_one(*cpy)); else { vj::value d = vj::value::object(); d.set("live", false); r.set("cpy", d); }
        return r;
    }
    vj::value run(const vj::value& c) {
        vj::value evs = vj::value::array();
        long id = c["id"].as_int();
        auto init = c["init"].as_vec<size_t>();
        bool ok0 = true;
        if constexpr (CanResize) ok0 = obj.resize(init);
        fill(obj, 0);
        { vj::value b = vj::value::object(); b.set("e", "begin").set("id", id).set("kind", c["kind"]).set("layout", c["layout"]).set("ret", ok0).set("proj", proj()); evs.push(b); }
        const auto& h = c["h"];
        for (size_t k = 0; k < h.size(); k++) {
            const auto& a = h[k]; std::string op = a["op"].as_str(); bool ret = true; long step = (long)k + 1;
            if (op == "resize") {
                if constexpr (CanResize) { ret = obj.resize(a["shape"].as_vec<size_t>()); if (ret) fill(obj, step); }
                else ret = false;
            } else if (op == "write") { auto shp = shape_vec(nm::shape(obj)); nm::apply_at(obj, idx_of(shp, a["k"].as_int())) = a["v"].as_int(); }
            else if (op == "copy") cpy.emplace(obj);
            else if (op == "assign") *cpy = obj;
            else if (op == "assign_back") obj = *cpy;
            else if (op == "write_copy") { auto shp = shape_vec(nm::shape(*cpy)); nm::apply_at(*cpy, idx_of(shp, a["k"].as_int())) = a["v"].as_int(); }
            else if (op == "drop_copy") cpy.reset();
            vj::value s = vj::value::object();
            s.set("e", "step").set("id", id).set("k", (long)k).set("act", a).set("ret", ret).set("proj", proj());
            evs.push(s);
        }
        vj::value r = vj::value::object(); r.set("__events", evs); return r;
    }
};

template <template <class...> class Off> static vj::value by_kind(const vj::value& c) {
    std::string kind = c["kind"].as_str();
    using L = long; using S = size_t;
    using fb = std::array<L, 6>; using bb = nmtools_static_vector<L, 6>; using db = std::vector<L>;
    using ds = std::vector<S>; using fs = std::array<S, 2>; using bs = nmtools_static_vector<S, 2>;
    using cs = nmtools_tuple<meta::ct<2>, meta::ct<3>>; using ks = nmtools_array<nm::clipped_size_t<3>, 2>;
    #define RUN(B, SH, R) { machine<na::ndarray_t<B, SH, na::resolve_stride_type_t, Off>, R> m; return m.run(c); }
    if (kind == "dyn_dyn") RUN(db, ds, true)
    if (kind == "fixbuf_dyn") RUN(fb, ds, true)
    if (kind == "boundbuf_dyn") RUN(bb, ds, true)
    if (kind == "dyn_fixdim") RUN(db, fs, true)
    if (kind == "dyn_bounddim") RUN(db, bs, true)
    if (kind == "fixbuf_fixdim") RUN(fb, fs, true)
    if (kind == "boundbuf_fixdim") RUN(bb, fs, true)
    if (kind == "boundbuf_bounddim") RUN(bb, bs, true)
    if (kind == "fixbuf_bounddim") RUN(fb, bs, true)
    if (kind == "fixbuf_const") RUN(fb, cs, false)
    if (kind == "boundbuf_clipped") RUN(bb, ks, true)
    if (kind == "dyn_clipped") RUN(db, ks, true)
    return crash_res("unknown kind " + kind);
}
static vj::value handle(const vj::value& c) {
    if (c["layout"].as_str() == "F") return by_kind<na::column_major_offset_t>(c);
    return by_kind<na::row_major_offset_t>(c);
}
int main(int argc, char** argv) { return run_driver(argc, argv, handle); }
