// C20 driver: interpreter of array-object histories (resize / write / copy / assign / cast) over ndarray_t kinds and
// layouts and over the legacy classes fixed_ndarray / hybrid_ndarray / dynamic_ndarray.
#include "verif/driver.hpp"
#include "verif/arrays.hpp"
#include "nmtools/array/ndarray.hpp"
#include "nmtools/utility/cast.hpp"
#include <optional>
#include <algorithm>

using namespace verif;
namespace ix = nmtools::index;

// access to the parts of an array object that differ between ndarray_t and the legacy classes
template <class A> struct parts {
    static const long* buf(const A& a) { return a.data(); }
    static vj::value ostrides(const A& a) { return vj::value(shape_vec(a.offset_.strides_)); }
    static bool resize(A& a, const std::vector<size_t>& s) { return a.resize(s); }
};
template <size_t... S> struct parts<na::fixed_ndarray<long, S...>> {
    using A = na::fixed_ndarray<long, S...>;
    static const long* buf(const A& a) { return reinterpret_cast<const long*>(&a.data[0]); }   // nested raw array: contiguous
    static vj::value ostrides(const A& a) { return vj::value(shape_vec(a.strides())); }
    static bool resize(A&, const std::vector<size_t>&) { return false; }          // no resize member
};
template <size_t M, size_t D> struct parts<na::hybrid_ndarray<long, M, D>> {
    using A = na::hybrid_ndarray<long, M, D>;
    static const long* buf(const A& a) { return a.data(); }
    static vj::value ostrides(const A& a) { return vj::value(shape_vec(a.strides())); }
    static bool resize(A& a, const std::vector<size_t>& s) {
        if (s.size() != D) return false;                                          // the dimension is part of the type: another dimension is not expressible
        std::array<size_t, D> t{}; for (size_t i = 0; i < D; i++) t[i] = s[i];
        return a.resize(t);
    }
};
template <> struct parts<na::dynamic_ndarray<long>> {
    using A = na::dynamic_ndarray<long>;
    static const long* buf(const A& a) { return a.data.data(); }
    static vj::value ostrides(const A& a) { return vj::value(shape_vec(a.strides())); }
    static bool resize(A& a, const std::vector<size_t>& s) { a.resize(s); return true; }   // returns void: always accepted
};

template <class A, bool CanResize, bool CanCastD = true> struct machine {
    A obj; std::optional<A> cpy;
    using P = parts<A>;

    static std::vector<size_t> idx_of(const std::vector<long>& shp, long k) {
        std::vector<size_t> s(shp.begin(), shp.end()), r(s.size());
        for (long i = (long)s.size() - 1; i >= 0; i--) { r[i] = (size_t)k % s[i]; k /= (long)s[i]; }
        return r;
    }
    // element by logical position (a fixed-size index where the dimension is part of the type: the legacy classes accept nothing else)
    template <class AA> static decltype(auto) ref_at(AA& a, const std::vector<long>& shp, long k) {
        [[maybe_unused]] constexpr auto FD = meta::fixed_dim_v<A>;
        if constexpr (!meta::is_fail_v<decltype(FD)>) {
            std::array<size_t, (size_t)FD> idx{}; auto v = idx_of(shp, k);
            for (size_t i = 0; i < idx.size() && i < v.size(); i++) idx[i] = v[i];
            return nm::apply_at(a, idx);
        } else return nm::apply_at(a, idx_of(shp, k));
    }
    static void fill(A& a, long step) {
        auto shp = shape_vec(nm::shape(a)); long n = 1; for (auto x : shp) n *= x;
        for (long p = 0; p < n; p++) ref_at(a, shp, p) = 100 * step + p;
    }
    static vj::value proj_one(const A& a) {
        auto shp = shape_vec(nm::shape(a)); long n = 1; for (auto x : shp) n *= x;
        std::vector<long> el, buf;
        bool sane = n >= 0 && n <= 4096;
        if (sane) for (long p = 0; p < n; p++) el.push_back((long)ref_at(a, shp, p));
        long sz = (long)nm::size(a);
        if (sane && sz == n) { for (long p = 0; p < n; p++) buf.push_back((long)P::buf(a)[p]); }
        auto se = el, sb = buf; std::sort(se.begin(), se.end()); std::sort(sb.begin(), sb.end());
        vj::value r = vj::value::object();
        r.set("live", true).set("shape", vj::value(shp)).set("dim", (long)nm::dim(a)).set("size", sz).set("elems", vj::value(el))
         .set("perm", se == sb).set("strides", vj::value(shape_vec(a.strides()))).set("ostrides", P::ostrides(a));
        return r;
    }
    vj::value proj() {
        vj::value r = vj::value::object();
        r.set("obj", proj_one(obj));
        if (cpy) r.set("cpy", proj_one(*cpy)); else { vj::value d = vj::value::object(); d.set("live", false); r.set("cpy", d); }
        return r;
    }
    vj::value run(const vj::value& c) {
        vj::value evs = vj::value::array();
        long id = c["id"].as_int();
        auto init = c["init"].as_vec<size_t>();
        bool ok0 = true;
        if constexpr (CanResize) ok0 = P::resize(obj, init);
        fill(obj, 0);
        { vj::value b = vj::value::object(); b.set("e", "begin").set("id", id).set("kind", c["kind"]).set("layout", c["layout"]).set("ret", ok0).set("proj", proj()); evs.push(b); }
        const auto& h = c["h"];
        for (size_t k = 0; k < h.size(); k++) {
            const auto& a = h[k]; std::string op = a["op"].as_str(); bool ret = true; long step = (long)k + 1;
            if (op == "resize") {
                if constexpr (CanResize) { ret = P::resize(obj, a["shape"].as_vec<size_t>()); if (ret) fill(obj, step); }
                else ret = false;
            } else if (op == "write") { auto shp = shape_vec(nm::shape(obj)); ref_at(obj, shp, a["k"].as_int()) = a["v"].as_int(); }
            else if (op == "copy") cpy.emplace(obj);
            else if (op == "assign") *cpy = obj;
            else if (op == "assign_back") obj = *cpy;
            else if (op == "write_copy") { auto shp = shape_vec(nm::shape(*cpy)); ref_at(*cpy, shp, a["k"].as_int()) = a["v"].as_int(); }
            else if (op == "drop_copy") cpy.reset();
            vj::value s = vj::value::object();
            if (op == "cast_dtype") {
                std::string t = a["t"].as_str();
                auto obs = [&](const auto& r) { auto p = project(r); vj::value o = vj::value::object(); o.set("shape", p["shape"]).set("elems", p["elems"]); return o; };
                // (an element-type cast of an ndarray_t over a bounded buffer does not compile: replace_element_type has no case for static_vector - a loud limitation)
                if constexpr (CanCastD) {
                    if (t == "f64") s.set("obs", obs(nm::cast<double>(obj)));
                    else if (t == "f32") s.set("obs", obs(nm::cast<float>(obj)));
                    else if (t == "i8") s.set("obs", obs(nm::cast<int8_t>(obj)));
                    else if (t == "u8") s.set("obs", obs(nm::cast<uint8_t>(obj)));
                    else if (t == "i16") s.set("obs", obs(nm::cast<int16_t>(obj)));
                }
            } else if (op == "cast_kind") {
                std::string kd = a["k"].as_str();
                auto obs = [&](const auto& r) { auto p = project(r); vj::value o = vj::value::object(); o.set("shape", p["shape"]).set("elems", p["elems"]); return o; };
                if (kd == "dynamic") s.set("obs", obs(nm::cast(obj, na::kind::dynamic)));
                else if (kd == "nd_dyn") s.set("obs", obs(nm::cast<na::ndarray_t<std::vector<long>, std::vector<size_t>>>(obj)));
            }
            s.set("e", "step").set("id", id).set("k", (long)k).set("act", a).set("ret", ret).set("proj", proj());
            evs.push(s);
        }
        vj::value r = vj::value::object(); r.set("__events", evs); return r;
    }
};

template <template <class...> class Off> static vj::value by_kind(const vj::value& c) {
    std::string kind = c["kind"].as_str();
    using L = long; using S = size_t;
    using fb = std::array<L, 6>; using bb = nmtools_static_vector<L, 6>; using db = std::vector<L>;
    using ds = std::vector<S>; using fs = std::array<S, 2>; using bs = nmtools_static_vector<S, 2>;
    using cs = nmtools_tuple<meta::ct<2>, meta::ct<3>>; using ks = nmtools_array<nm::clipped_size_t<3>, 2>;
    #define RUN(B, SH, R) { machine<na::ndarray_t<B, SH, na::resolve_stride_type_t, Off>, R, !std::is_same_v<B, bb>> m; return m.run(c); }
    if (kind == "dyn_dyn") RUN(db, ds, true)
    if (kind == "fixbuf_dyn") RUN(fb, ds, true)
    if (kind == "boundbuf_dyn") RUN(bb, ds, true)
    if (kind == "dyn_fixdim") RUN(db, fs, true)
    if (kind == "dyn_bounddim") RUN(db, bs, true)
    if (kind == "fixbuf_fixdim") RUN(fb, fs, true)
    if (kind == "boundbuf_fixdim") RUN(bb, fs, true)
    if (kind == "boundbuf_bounddim") RUN(bb, bs, true)
    if (kind == "fixbuf_bounddim") RUN(fb, bs, true)
    if (kind == "fixbuf_const") RUN(fb, cs, false)
    if (kind == "boundbuf_clipped") RUN(bb, ks, true)
    if (kind == "dyn_clipped") RUN(db, ks, true)
    return crash_res("unknown kind " + kind);
}
static vj::value handle(const vj::value& c) {
    std::string kind = c["kind"].as_str();
    if (kind == "legacy_fixed") { machine<na::fixed_ndarray<long, 2, 3>, false> m; return m.run(c); }
    if (kind == "legacy_hybrid") { machine<na::hybrid_ndarray<long, 6, 2>, true> m; return m.run(c); }
    if (kind == "legacy_dynamic") { machine<na::dynamic_ndarray<long>, true> m; return m.run(c); }
    if (c["layout"].as_str() == "F") return by_kind<na::column_major_offset_t>(c);
    return by_kind<na::row_major_offset_t>(c);
}
int main(int argc, char** argv) { return run_driver(argc, argv, handle); }
