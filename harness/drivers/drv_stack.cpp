// C14 driver (combinators): a composition <<f_n, ..., f_1>> over the alphabet {negative, square, subtract, where, swap,
// dup, dig2, bury2} is built at run time (continuation-passing over the alphabet, both groupings), applied to its
// operands under a given split of the operand list over successive calls (all at once, one at a time, any mixture) and
// the resulting stack (one array or a tuple of arrays) is logged.  The specification interprets the stack machine of
// StackMachine.tla on the same operand values.
#include "verif/driver.hpp"
#include "verif/arrays.hpp"
#include "nmtools/array/functional/combinator.hpp"
#include "nmtools/array/functional/ufuncs/negative.hpp"
#include "nmtools/array/functional/ufuncs/square.hpp"
#include "nmtools/array/functional/ufuncs/subtract.hpp"
#include "nmtools/array/functional/where.hpp"
#include <tuple>

#ifndef MAXD
#define MAXD 2
#endif
using namespace verif;
namespace fn = nmtools::functional;
namespace cb = nmtools::combinator;

template <int V> using IC = std::integral_constant<int, V>;
template <class Seq, int V> struct append_seq;
template <int... S, int V> struct append_seq<std::integer_sequence<int, S...>, V> { using type = std::integer_sequence<int, S..., V>; };
template <class Seq> struct last_of { static constexpr int value = -1; };
template <int A> struct last_of<std::integer_sequence<int, A>> { static constexpr int value = A; };
template <int A, int... R> struct last_of<std::integer_sequence<int, A, R...>> { static constexpr int value = last_of<std::integer_sequence<int, R...>>::value; };
// the nearest functor outside the current position that is not unary takes three operands (where, dig2, bury2)
template <int... S> constexpr bool three_operand_functor_outside(std::integer_sequence<int, S...>) {
    int seq[] = {S..., -1}; int n = (int)sizeof...(S);
    for (int q = n - 1; q >= 0; q--) { if (seq[q] == 0 || seq[q] == 1) continue; return seq[q] == 3 || seq[q] == 6 || seq[q] == 7; }
    return false;
}
template <int... S> constexpr bool comb_not_outermost(std::integer_sequence<int, S...>) {
    int seq[] = {S..., -1}; int n = (int)sizeof...(S);
    for (int q = 1; q < n; q++) if (seq[q] >= 4) return true;
    return false;
}
// where yields an optional even over fixed shapes; a 3-operand functor (where, dig2, bury2) directly outside it would have to take an
// optional stack apart, which does not compile (a loud limitation): those adjacent pairs are reported as unsupported
template <int Level, class Seq = std::integer_sequence<int>> constexpr bool on(int idx) {
#ifdef FIRST_IDX
    if (Level == 0) return idx == FIRST_IDX;
#endif
    if (idx == 3 && three_operand_functor_outside(Seq{})) return false;
    // ... and nothing can be applied to the optional stack a combinator leaves behind once where is inside it:
    // where below a combinator that is not the outermost functor is unsupported as well
    if (idx == 3 && comb_not_outermost(Seq{})) return false;
    return true;
}
static int idx_of(const std::string& n) { const char* names[] = {"u1", "u2", "b", "t", "swap", "dup", "dig2", "bury2"}; for (int i = 0; i < 8; i++) if (n == names[i]) return i; return -1; }

struct none_f {};

// operands a composition <<f_n, ..., f_1>> (indices in that order) needs: the stack machine's arity
constexpr int AR[8] = {1, 1, 2, 3, 2, 1, 3, 3}, OUT[8] = {1, 1, 1, 1, 2, 2, 3, 3};
template <int... S> constexpr size_t arity_of(std::integer_sequence<int, S...>) {
    int seq[] = {S..., 0}; int n = (int)sizeof...(S); int have = 0, need = 0;
    for (int q = n - 1; q >= 0; q--) { int f = seq[q]; int missing = AR[f] > have ? AR[f] - have : 0; need += missing; have = have + missing - AR[f] + OUT[f]; }
    return (size_t)need;
}
// comp is given as <<f_n, ..., f_1>>; the chain is consumed left to right, so the functor seen first is the outermost one:
// acc * f  (left grouping)  or  the right-grouped product built by recursion
template <int Level, class Seq = std::integer_sequence<int>, class Acc, class K> static vj::value build_left(const std::vector<int>& comp, size_t i, const Acc& acc, K&& k) {
    if (i == comp.size()) { if constexpr (std::is_same_v<Acc, none_f>) return crash_res("driver:empty"); else return k(acc, Seq{}); }
    if constexpr (Level >= MAXD) return crash_res("driver:composition longer than the compiled depth");
    else {
        auto next = [&](const auto& f, auto X) { using NS = typename append_seq<Seq, decltype(X)::value>::type;
            if constexpr (std::is_same_v<Acc, none_f>) return build_left<Level + 1, NS>(comp, i + 1, f, k); else return build_left<Level + 1, NS>(comp, i + 1, acc * f, k); };
        int x = comp[i];
        if constexpr (on<Level, Seq>(0)) if (x == 0) return next(fn::negative, IC<0>{});
        if constexpr (on<Level, Seq>(1)) if (x == 1) return next(fn::square, IC<1>{});
        if constexpr (on<Level, Seq>(2)) if (x == 2) return next(fn::subtract, IC<2>{});
        if constexpr (on<Level, Seq>(3)) if (x == 3) return next(fn::where, IC<3>{});
        if constexpr (on<Level, Seq>(4)) if (x == 4) return next(cb::swap, IC<4>{});
        if constexpr (on<Level, Seq>(5)) if (x == 5) return next(cb::dup, IC<5>{});
        if constexpr (on<Level, Seq>(6)) if (x == 6) return next(cb::dig2, IC<6>{});
        if constexpr (on<Level, Seq>(7)) if (x == 7) return next(cb::bury2, IC<7>{});
        return crash_res("driver:functor not compiled at this position");
    }
}
// right grouping: f_n * (f_{n-1} * ( ... * f_1))
template <int Level, class Seq = std::integer_sequence<int>, class K> static vj::value build_right(const std::vector<int>& comp, size_t i, K&& k) {
    if constexpr (Level >= MAXD) return crash_res("driver:composition longer than the compiled depth");
    else {
        auto with = [&](const auto& f, auto X) -> vj::value {
            using NS = typename append_seq<Seq, decltype(X)::value>::type;
            if (i + 1 == comp.size()) return k(f, NS{});
            return build_right<Level + 1, NS>(comp, i + 1, [&](const auto& inner, auto full) { return k(f * inner, full); });
        };
        int x = comp[i];
        if constexpr (on<Level, Seq>(0)) if (x == 0) return with(fn::negative, IC<0>{});
        if constexpr (on<Level, Seq>(1)) if (x == 1) return with(fn::square, IC<1>{});
        if constexpr (on<Level, Seq>(2)) if (x == 2) return with(fn::subtract, IC<2>{});
        if constexpr (on<Level, Seq>(3)) if (x == 3) return with(fn::where, IC<3>{});
        if constexpr (on<Level, Seq>(4)) if (x == 4) return with(cb::swap, IC<4>{});
        if constexpr (on<Level, Seq>(5)) if (x == 5) return with(cb::dup, IC<5>{});
        if constexpr (on<Level, Seq>(6)) if (x == 6) return with(cb::dig2, IC<6>{});
        if constexpr (on<Level, Seq>(7)) if (x == 7) return with(cb::bury2, IC<7>{});
        return crash_res("driver:functor not compiled at this position");
    }
}

constexpr size_t MAXN = 5;
// fixed-shape operands: with run-time shapes every broadcasting functor yields an optional, and compositions whose outer functor is a
// combinator or where do not compile over optional stacks (a loud limitation)
using arr_t = std::array<long, 3>;
template <class F, size_t... I> static auto call_range(const F& f, const std::array<arr_t, MAXN>& ops, size_t from, std::index_sequence<I...>) { return f(ops[from + I]...); }

// operands passed through by a combinator come back as pointers to the caller's arrays
template <class X> static vj::value proj_entry(const X& x) {
    if constexpr (std::is_pointer_v<X>) return project(*x);
    else if constexpr (meta::is_maybe_v<X>) { if (!static_cast<bool>(x)) return nothing_res(); return proj_entry(*x); }
    else return project(x);
}
// the final stack: one array-like or a tuple of them
template <class R> static vj::value stack_res(const R& r) {
    if constexpr (meta::is_maybe_v<R>) { if (!static_cast<bool>(r)) return nothing_res(); return stack_res(*r); }
    else if constexpr (meta::is_tuple_v<R>) {
        vj::value shapes = vj::value::array(), elems = vj::value::array(); bool ok = true;
        constexpr auto NN = meta::len_v<R>;
        meta::template_for<NN>([&](auto I) { auto p = proj_entry(nmtools::get<decltype(I)::value>(r)); ok = ok && p["ok"].as_bool(); shapes.push(p["shape"]); elems.push(p["elems"]); });
        vj::value o = vj::value::object(); o.set("ok", ok).set("crash", "").set("shape", shapes).set("elems", elems).set("multi", true); return o;
    } else {
        auto p = proj_entry(r); vj::value shapes = vj::value::array(), elems = vj::value::array(); shapes.push(p["shape"]); elems.push(p["elems"]);
        vj::value o = vj::value::object(); o.set("ok", p["ok"]).set("crash", "").set("shape", shapes).set("elems", elems); return o;
    }
}
// "still a functor": a functor_t or functor_composition_t (views carry an arity member too, so the member cannot be the test)
template <class F> struct has_arity : std::false_type {};
template <class F, class O, class A> struct has_arity<fn::functor_t<F, O, A>> : std::true_type {};
template <class Fs, class O> struct has_arity<fn::functor_composition_t<Fs, O>> : std::true_type {};
// apply f to its N operands under a named split of the operand list over successive calls
template <class F> static vj::value finish(const F& r) {
    if constexpr (has_arity<F>::value) return crash_res("composition still waits for operands after all of them were passed");
    else return stack_res(r);
}
template <size_t From, size_t T, class F> static auto call(const F& f, const std::array<arr_t, MAXN>& ops) { return call_range(f, ops, From, std::make_index_sequence<T>{}); }
template <size_t From, size_t N, class F> static vj::value ones(const F& f, const std::array<arr_t, MAXN>& ops) {
    if constexpr (From == N) return finish(f);
    else if constexpr (!has_arity<F>::value) return crash_res("composition completed before all operands were passed");
    else return ones<From + 1, N>(call<From, 1>(f, ops), ops);
}
template <size_t N, class F> static vj::value apply_split(const F& f, const std::array<arr_t, MAXN>& ops, const std::string& split) {
    auto two = [&](auto A) -> vj::value {
        constexpr size_t a = decltype(A)::value;
        if constexpr (a == 0 || a >= N) return crash_res("driver:split not applicable");
        else { auto g = call<0, a>(f, ops); if constexpr (!has_arity<decltype(g)>::value) return crash_res("composition completed before all operands were passed"); else return finish(call<a, N - a>(g, ops)); }
    };
    if (split == "all") return finish(call<0, N>(f, ops));
    if (split == "ones") return ones<0, N>(f, ops);
    if (split == "head1") return two(std::integral_constant<size_t, 1>{});
    if (split == "tail1") return two(std::integral_constant<size_t, (N > 1 ? N - 1 : 0)>{});
    if (split == "half") return two(std::integral_constant<size_t, N / 2>{});
    return crash_res("driver:unknown split");
}

static vj::value handle(const vj::value& c) {
    std::vector<int> comp; for (size_t i = 0; i < c["comp"].size(); i++) comp.push_back(idx_of(c["comp"][i].as_str()));
    std::array<arr_t, MAXN> ops;
    size_t n = c["shapes"].size();
    for (size_t j = 0; j < MAXN; j++) { ops[j] = arr_t{0, 0, 0}; if (j < n) { auto d = c["data"][j].as_vec<long>(); for (size_t q = 0; q < 3 && q < d.size(); q++) ops[j][q] = d[q]; } }
    std::string split = c["split"].as_str();
    auto run = [&](const auto& F, auto seq) -> vj::value {
        constexpr size_t NN = arity_of(decltype(seq){});
        if constexpr (NN == 0 || NN > MAXN) return crash_res("driver:arity beyond the compiled maximum");
        else { if (n != NN) return crash_res("driver:operand count differs from the arity of the stack machine"); return apply_split<NN>(F, ops, split); }
    };
    if (c["group"].as_str() == "right") return build_right<0>(comp, 0, run);
    return build_left<0>(comp, 0, none_f{}, run);
}
int main(int argc, char** argv) { return run_driver(argc, argv, handle); }
