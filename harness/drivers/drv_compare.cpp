// C18 driver: utils::isequal / utils::isclose over scalars, index arrays, ndarrays, views, optionals and tuples.
// Built twice by the check: with assertions (default) and with -DNDEBUG.
#include "verif/driver.hpp"
#include "verif/arrays.hpp"
#include "nmtools/utility/isequal.hpp"
#include "nmtools/utility/isclose.hpp"
#include "nmtools/utility/apply_isequal.hpp"
#include "nmtools/utility/apply_isclose.hpp"
#include "nmtools/array/view/reshape.hpp"
#include <optional>

using namespace verif;
namespace utils = nmtools::utils;

static vj::value boolean(bool b) {
    vj::value r = vj::value::object(); vj::value el = vj::value::array(); el.push((long)(b ? 1 : 0));
    r.set("ok", true).set("crash", "").set("shape", vj::value::array()).set("elems", el); return r;
}
template <class T> static dyn_t<T> nd_of(const vj::value& v, double scale) {
    auto shp = v["shape"].as_vec<long>(); std::vector<T> d; for (size_t i = 0; i < v["elems"].size(); i++) d.push_back((T)(v["elems"][i].as_int() * scale));
    return make_data<T>(shp, d);
}
// compare(a,b) generic over isequal / isclose
template <bool Close, class A, class B> static bool cmp(const A& a, const B& b, double eps) {
    if constexpr (Close) return (bool)utils::isclose(a, b, eps); else return (bool)utils::isequal(a, b);
}
// the same oracles through apply_isequal / apply_isclose (nested containers of arrays: optionals, tuples, lists; isclose with its default eps)
template <bool Close, class A, class B> static bool acmp(const A& a, const B& b) {
    if constexpr (Close) return (bool)utils::apply_isclose(a, b); else return (bool)utils::apply_isequal(a, b);
}
template <bool Close> static vj::value run_apply(const vj::value& c) {
    const auto& g = c["args"]; const auto& a = g["a"]; const auto& b = g["b"];
    std::string t = a["t"].as_str(), form = g["form"].as_str();
    double sc = Close ? 0.25 : 1.0;
    using E = std::conditional_t<Close, double, long>;
    if (t == "nd") return boolean(acmp<Close>(nd_of<E>(a, sc), nd_of<E>(b, sc)));
    if (t == "maybe") {
        auto mk = [&](const vj::value& m) { std::optional<dyn_t<E>> o; if (m["has"].as_bool()) o = nd_of<E>(m["val"], sc); return o; };
        return boolean(acmp<Close>(mk(a), mk(b)));
    }
    if (t == "tuple" && form == "tuple") {
        auto x0 = nd_of<E>(a["items"][0], sc), y0 = nd_of<E>(b["items"][0], sc); auto x1 = nd_of<E>(a["items"][1], sc), y1 = nd_of<E>(b["items"][1], sc);
        return boolean(acmp<Close>(nmtools_tuple{x0, x1}, nmtools_tuple{y0, y1}));
    }
    if (t == "tuple" && form == "list") {      // run-time lists of arrays, possibly of different length
        auto mk = [&](const vj::value& m) { std::vector<dyn_t<E>> v; for (size_t i = 0; i < m["items"].size(); i++) v.push_back(nd_of<E>(m["items"][i], sc)); return v; };
        return boolean(acmp<Close>(mk(a), mk(b)));
    }
    return crash_res("driver:unsupported");
}
template <bool Close> static vj::value run(const vj::value& c) {
    const auto& g = c["args"]; const auto& a = g["a"]; const auto& b = g["b"];
    if (g.has("apply") && g["apply"].as_bool()) return run_apply<Close>(c);
    std::string t = a["t"].as_str(), form = g["form"].as_str();
    double eps = Close ? g["eps4"].as_int() / 4.0 : 0; double sc = Close ? 0.25 : 1.0;
    using E = std::conditional_t<Close, double, long>;
    if (t == "either" || b["t"].as_str() == "either") {
        // variants over (scalar, n-d array); a plain operand is the scalar or the array itself
        using A = dyn_t<E>; using V = nmtools_either<E, A>;
        auto mk = [&](const vj::value& m) -> V { const auto& v = m["val"]; if (m["tag"].as_str() == "L") return V{(E)(v["v"].as_int() * sc)}; return V{nd_of<E>(v, sc)}; };
        auto plain = [&](const vj::value& m, auto&& f) -> vj::value { if (m["t"].as_str() == "num") return f((E)(m["v"].as_int() * sc)); return f(nd_of<E>(m, sc)); };
        if (form == "either_either") return boolean(cmp<Close>(mk(a), mk(b), eps));
        if (form == "either_plain") return plain(b, [&](const auto& y) { return boolean(cmp<Close>(mk(a), y, eps)); });
        if (form == "plain_either") return plain(a, [&](const auto& x) { return boolean(cmp<Close>(x, mk(b), eps)); });
    }
    if (t == "num") return boolean(cmp<Close>((E)(a["v"].as_int() * sc), (E)(b["v"].as_int() * sc), eps));
    if (t == "idx") {
        if constexpr (Close) return crash_res("driver:unsupported");
        else {
            auto x = a["v"].as_vec<int>(), y = b["v"].as_vec<int>();
            if (form == "vec_vec") return boolean(utils::isequal(x, y));
            if (form == "vec_sv") { nmtools_static_vector<int, 8> z; z.resize(y.size()); for (size_t i = 0; i < y.size(); i++) z[i] = y[i]; return boolean(utils::isequal(x, z)); }
            if (form == "sv_vec") { nmtools_static_vector<int, 8> z; z.resize(x.size()); for (size_t i = 0; i < x.size(); i++) z[i] = x[i]; return boolean(utils::isequal(z, y)); }
            if (form == "arr3_vec") { if (x.size() != 3) return crash_res("driver:unsupported"); std::array<int, 3> z{x[0], x[1], x[2]}; return boolean(utils::isequal(z, y)); }
            if (form == "vec_arr3") { if (y.size() != 3) return crash_res("driver:unsupported"); std::array<int, 3> z{y[0], y[1], y[2]}; return boolean(utils::isequal(x, z)); }
        }
    }
    if (t == "nd") {
        auto x = nd_of<E>(a, sc), y = nd_of<E>(b, sc);
        if (form == "dyn_dyn") return boolean(cmp<Close>(x, y, eps));
        if (form == "view_dyn") {   // lhs is a reshape view of the flattened data
            auto flat = make_data<E>({(long)a["elems"].size()}, std::vector<E>(x.data(), x.data() + a["elems"].size()));
            auto v = nmtools::view::reshape(flat, a["shape"].as_vec<int>());
            return boolean(cmp<Close>(nmtools::unwrap(v), y, eps));
        }
        if (form == "hybrid_dyn") {
            na::ndarray_t<nmtools_static_vector<E, 32>, nmtools_static_vector<size_t, 4>> h; h.resize(a["shape"].as_vec<size_t>());
            for (size_t i = 0; i < a["elems"].size(); i++) h.data()[i] = x.data()[i];
            return boolean(cmp<Close>(h, y, eps));
        }
    }
    if (t == "maybe") {
        auto mk = [&](const vj::value& m) { std::optional<dyn_t<E>> o; if (m["has"].as_bool()) o = nd_of<E>(m["val"], sc); return o; };
        auto x = mk(a), y = mk(b);
        if (form == "maybe_maybe") return boolean(cmp<Close>(x, y, eps));
    }
    if (t == "tuple") {
        auto x0 = nd_of<E>(a["items"][0], sc), y0 = nd_of<E>(b["items"][0], sc); auto x1 = nd_of<E>(a["items"][1], sc), y1 = nd_of<E>(b["items"][1], sc);
        return boolean(cmp<Close>(nmtools_tuple{x0, x1}, nmtools_tuple{y0, y1}, eps));
    }
    return crash_res("driver:unsupported");
}
static vj::value handle(const vj::value& c) { return c["op"].as_str() == "isclose" ? run<true>(c) : run<false>(c); }
int main(int argc, char** argv) { return run_driver(argc, argv, handle); }
