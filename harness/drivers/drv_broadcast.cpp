// C06 driver: index::broadcast_shape (2..4 operands, run-time containers, scalar operands), shape_broadcast_to,
// view::broadcast_to and view::broadcast_arrays elements.
#include "verif/driver.hpp"
#include "verif/arrays.hpp"
#include "nmtools/array/index/broadcast_shape.hpp"
#include "nmtools/array/index/broadcast_to.hpp"
#include "nmtools/array/view/broadcast_to.hpp"
#include "nmtools/array/view/broadcast_arrays.hpp"
#include "nmtools/utl.hpp"

using namespace verif;
namespace view = nmtools::view;
namespace ix = nmtools::index;

static vj::value shape_result(bool ok, const std::vector<long>& v) {
    vj::value r = vj::value::object();
    r.set("ok", ok).set("crash", "").set("shape", vj::value(v)).set("elems", vj::value::array());
    return r;
}
template <class R> static vj::value shape_project(const R& r) {
    if constexpr (meta::is_maybe_v<R>) { if (!static_cast<bool>(r)) return shape_result(false, {}); return shape_project(*r); }
    else if constexpr (nm::is_none_v<R>) return shape_result(true, {});
    else return shape_result(true, shape_vec(r));
}

template <class C> static C conv(const std::vector<long>& s) {
    C c; if constexpr (meta::is_resizable_v<C>) c.resize(s.size());
    for (size_t i = 0; i < s.size(); i++) nm::at(c, i) = s[i];
    return c;
}

template <class C> static vj::value bshape(const std::vector<std::vector<long>>& ss) {
    size_t n = ss.size();
    // scalar (None) operands are only handled for pairs
    if (n == 2 && ss[0].empty() && ss[1].empty()) return shape_project(ix::broadcast_shape(nm::None, nm::None));
    if (n == 2 && ss[0].empty()) return shape_project(ix::broadcast_shape(nm::None, conv<C>(ss[1])));
    if (n == 2 && ss[1].empty()) return shape_project(ix::broadcast_shape(conv<C>(ss[0]), nm::None));
    if (n == 2) return shape_project(ix::broadcast_shape(conv<C>(ss[0]), conv<C>(ss[1])));
    if (n == 3) return shape_project(ix::broadcast_shape(conv<C>(ss[0]), conv<C>(ss[1]), conv<C>(ss[2])));
    if (n == 4) return shape_project(ix::broadcast_shape(conv<C>(ss[0]), conv<C>(ss[1]), conv<C>(ss[2]), conv<C>(ss[3])));
    return crash_res("arity");
}

// fixed-dimension shape containers (std::array<size_t,N>): the dimension is a compile-time property, dispatched over 1..4
template <size_t N> static std::array<size_t, N> arr_of(const std::vector<long>& s) { std::array<size_t, N> a{}; for (size_t i = 0; i < N; i++) a[i] = (size_t)s[i]; return a; }
template <size_t N, class F> static vj::value with_dim(size_t d, F&& f) {
    if constexpr (N == 0) return crash_res("driver:unsupported");
    else { if (d == N) return f(std::integral_constant<size_t, N>{}); return with_dim<N - 1>(d, f); }
}
static vj::value bshape_arr(const std::vector<std::vector<long>>& ss) {
    for (auto& s : ss) if (s.empty() || s.size() > 4) return crash_res("driver:unsupported");
    if (ss.size() == 2)
        return with_dim<4>(ss[0].size(), [&](auto n) { return with_dim<4>(ss[1].size(), [&](auto m) {
            return shape_project(ix::broadcast_shape(arr_of<decltype(n)::value>(ss[0]), arr_of<decltype(m)::value>(ss[1]))); }); });
    if (ss.size() == 3 && ss[0].size() <= 3 && ss[1].size() <= 3 && ss[2].size() <= 3)
        return with_dim<3>(ss[0].size(), [&](auto n) { return with_dim<3>(ss[1].size(), [&](auto m) { return with_dim<3>(ss[2].size(), [&](auto k) {
            return shape_project(ix::broadcast_shape(arr_of<decltype(n)::value>(ss[0]), arr_of<decltype(m)::value>(ss[1]), arr_of<decltype(k)::value>(ss[2]))); }); }); });
    return crash_res("driver:unsupported");
}
// mixed: first operand fixed-dimension, second dynamic
static vj::value bshape_mixed(const std::vector<std::vector<long>>& ss) {
    if (ss.size() != 2 || ss[0].empty() || ss[0].size() > 4 || ss[1].empty()) return crash_res("driver:unsupported");
    return with_dim<4>(ss[0].size(), [&](auto n) { return shape_project(ix::broadcast_shape(arr_of<decltype(n)::value>(ss[0]), conv<std::vector<size_t>>(ss[1]))); });
}

// the element count a view reports (nm::size) next to its shape and elements: it has to be the product of the shape
template <class V> static vj::value with_size(const V& v) {
    if constexpr (meta::is_maybe_v<V>) { if (!static_cast<bool>(v)) return nothing_res(); return with_size(*v); }
    else { auto p = project(v); p.set("size", (long)nm::size(v)); return p; }
}
template <class T> static vj::value tuple_project(const T& t) {
    // tuple of arrays -> {ok, crash, shape:[shape...], elems:[elems...]}
    if constexpr (meta::is_maybe_v<T>) { if (!static_cast<bool>(t)) return nothing_res(); return tuple_project(*t); }
    else {
        vj::value shapes = vj::value::array(), elems = vj::value::array(), sizes = vj::value::array();
        constexpr auto N = meta::len_v<T>;
        bool ok = true;
        meta::template_for<N>([&](auto I) {
            auto p = project(nmtools::get<decltype(I)::value>(t));
            if (!p["ok"].as_bool()) ok = false;
            shapes.push(p["shape"]); elems.push(p["elems"]); sizes.push((long)nm::size(nmtools::get<decltype(I)::value>(t)));
        });
        vj::value r = vj::value::object();
        r.set("ok", ok).set("crash", "").set("shape", shapes).set("elems", elems).set("sizes", sizes);
        return r;
    }
}

static vj::value handle(const vj::value& c) {
    const std::string op = c["op"].as_str();
    const auto& args = c["args"];
    std::vector<std::vector<long>> ss;
    for (size_t i = 0; i < c["shapes"].size(); i++) ss.push_back(c["shapes"][i].as_vec<long>());
    std::string cfg = c.has("cfg") ? c["cfg"].as_str() : "vec";
    if (op == "broadcast_shape") {
        if (cfg == "vec") return bshape<std::vector<size_t>>(ss);
        if (cfg == "veci") return bshape<std::vector<int>>(ss);
        if (cfg == "sv") return bshape<nmtools_static_vector<size_t, 8>>(ss);
        if (cfg == "utlvec") return bshape<nmtools::utl::vector<size_t>>(ss);
        if (cfg == "arr") return bshape_arr(ss);
        if (cfg == "arr_vec") return bshape_mixed(ss);
        return crash_res("cfg");
    }
    if (op == "shape_broadcast_to") {
        auto dst = args["dst"].as_vec<long>();
        auto first = [](const auto& r) {
            using R = meta::remove_cvref_t<decltype(r)>;
            if constexpr (meta::is_maybe_v<R>) { if (!static_cast<bool>(r)) return shape_result(false, {}); return shape_result(true, shape_vec(nmtools::get<0>(*r))); }
            else return shape_result(true, shape_vec(nmtools::get<0>(r)));
        };
        if (ss[0].empty()) return first(ix::shape_broadcast_to(nm::None, conv<std::vector<size_t>>(dst)));
        return first(ix::shape_broadcast_to(conv<std::vector<size_t>>(ss[0]), conv<std::vector<size_t>>(dst)));
    }
    if (op == "broadcast_to") {
        auto dst = args["dst"].as_vec<size_t>();
        if (ss[0].empty()) { long a = 1; return with_size(view::broadcast_to(a, dst)); }
        auto a = make_leaf<long>(ss[0], 0);
        return with_size(view::broadcast_to(a, dst));
    }
    if (op == "broadcast_arrays") {
        if (ss.size() == 2) {
            auto a = make_leaf<long>(ss[0], 0); auto b = make_leaf<long>(ss[1], 1);
            return tuple_project(view::broadcast_arrays(a, b));
        }
        if (ss.size() == 3) {
            auto a = make_leaf<long>(ss[0], 0); auto b = make_leaf<long>(ss[1], 1); auto d = make_leaf<long>(ss[2], 2);
            return tuple_project(view::broadcast_arrays(a, b, d));
        }
    }
    return crash_res("unknown op " + op);
}
int main(int argc, char** argv) { return run_driver(argc, argv, handle); }
