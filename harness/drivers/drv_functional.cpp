// C14 driver: functors, currying, composition (all groupings) and extraction (composition, operands, compute graph)
// for run-time chosen programs; the composed view and the composed functor are built side by side.
#include "verif/driver.hpp"
#include "verif/arrays.hpp"
#include "nmtools/array/functional.hpp"
#include "nmtools/array/functional/compute_graph.hpp"
#include "nmtools/array/functional/transpose.hpp"
#include "nmtools/array/functional/flip.hpp"
#include "nmtools/array/functional/reshape.hpp"
#include "nmtools/array/functional/tile.hpp"
#include "nmtools/array/functional/roll.hpp"
#include "nmtools/array/functional/expand_dims.hpp"
#include "nmtools/array/functional/ufuncs/add.hpp"
#include "nmtools/array/functional/ufuncs/subtract.hpp"
#include "nmtools/array/functional/flatten.hpp"
#include "nmtools/array/functional/ufuncs/negative.hpp"
#include "nmtools/array/functional/ufuncs/square.hpp"
#include "nmtools/array/view/transpose.hpp"
#include "nmtools/array/view/flip.hpp"
#include "nmtools/array/view/reshape.hpp"
#include "nmtools/array/view/tile.hpp"
#include "nmtools/array/view/roll.hpp"
#include "nmtools/array/view/expand_dims.hpp"
#include "nmtools/array/view/ufuncs/add.hpp"
#include "nmtools/array/view/ufuncs/subtract.hpp"
#include "nmtools/array/view/flatten.hpp"
#include "nmtools/array/view/ufuncs/negative.hpp"
#include "nmtools/array/view/ufuncs/square.hpp"
#include <tuple>

#ifndef MAXD
#define MAXD 2
#endif
using namespace verif;
namespace view = nmtools::view;
namespace fn = nmtools::functional;

struct step_t { std::string op; std::vector<int> iv; std::vector<size_t> uv; int a = 0, b = 0; dyn_t<long> leaf; };
static step_t parse_step(const vj::value& s) {
    step_t r; r.op = s["op"].as_str(); const auto& g = s["args"];
    if (r.op == "transpose") { if (g["axes"].size()) r.iv = g["axes"][0].as_vec<int>(); else r.a = -99; }
    else if (r.op == "flip") r.a = (int)g["axis"][0][0].as_int();
    else if (r.op == "reshape") r.iv = g["dst"].as_vec<int>();
    else if (r.op == "tile") r.uv = g["reps"].as_vec<size_t>();
    else if (r.op == "roll") { r.a = (int)g["shift"][0].as_int(); r.b = (int)g["axis"][0][0].as_int(); }
    else if (r.op == "expand_dims") r.a = (int)g["axis"][0].as_int();
    else if (r.op == "reduce_add") r.a = (int)g["axis"][0][0].as_int();
    else if (r.op == "add") r.leaf = make_leaf<long>(s["shapes"][1].as_vec<long>(), 1);
    return r;
}
#ifndef NOPS
#define NOPS 8
#endif
template <int Level> constexpr bool on(int idx) {
#ifdef FIRST_IDX
    if (Level == 0) return idx == FIRST_IDX;
#endif
    // view::flip and view::expand_dims do not compile on operands whose dimension is only known as an optional
    // (results of reshape / roll / add ... with run-time arguments), nor inside a functor composition: first position only
    if ((idx == 1 || idx == 7) && Level > 0) return false;
    return idx < NOPS;
}

struct none_f {};
template <class F, class G> static auto compose(const F& f, const G& g) { if constexpr (std::is_same_v<G, none_f>) return f; else return f * g; }

// state threaded through the chain: composed view v, composed functor F (applied so far), tuple of the single functors
// fs (application order), tuple of pointers to the extra operands ex (in operand order)
template <int Level, class V, class F, class FS, class EX, class K>
static vj::value fstep(const step_t& s, const V& v, const F& F_, const FS& fs, const EX& ex, K&& k) {
    auto cont = [&](const auto& r, const auto& f, const auto& nex) -> vj::value {
        using R = meta::remove_cvref_t<decltype(r)>;
        auto nF = compose(f, F_);
        auto nfs = std::tuple_cat(fs, std::make_tuple(f));
        if constexpr (meta::is_maybe_v<R>) { if (!static_cast<bool>(r)) { auto n = nothing_res(); n.set("maybe", true); return n; } return k(*r, nF, nfs, nex); }
        else return k(r, nF, nfs, nex);
    };
    if constexpr (on<Level>(0)) if (s.op == "transpose") { if (s.a == -99) return cont(view::transpose(v, nm::None), fn::transpose[nm::None], ex); return cont(view::transpose(v, s.iv), fn::transpose[s.iv], ex); }
    if constexpr (on<Level>(1)) if (s.op == "flip") {
        // view::flip does not compile for operands whose dimension is only known as an optional (e.g. the result of view::add)
        if constexpr (std::tuple_size_v<EX> > 0 || meta::is_maybe_v<meta::remove_cvref_t<decltype(nmtools::dim<true>(v))>>) return crash_res("driver:unsupported operand for flip");
        else return cont(view::flip(v, s.a), fn::flip[s.a], ex);
    }
    if constexpr (on<Level>(2)) if (s.op == "reshape") return cont(view::reshape(v, s.iv), fn::reshape[s.iv], ex);
    if constexpr (on<Level>(3)) if (s.op == "tile") return cont(view::tile(v, s.uv), fn::tile[s.uv], ex);
    if constexpr (on<Level>(4)) if (s.op == "reduce_add") return cont(view::reduce_add(v, s.a), fn::reduce_add[s.a], ex);
    if constexpr (on<Level>(5)) if (s.op == "add") return cont(view::add(v, s.leaf), fn::add, std::tuple_cat(ex, std::make_tuple(&s.leaf)));
    if constexpr (on<Level>(6)) if (s.op == "roll") return cont(view::roll(v, s.a, s.b), fn::roll[s.a][s.b], ex);
    if constexpr (on<Level>(7)) if (s.op == "expand_dims") return cont(view::expand_dims(v, s.a), fn::expand_dims[s.a], ex);
    return crash_res("driver:operation not compiled at this position: " + s.op);
}
template <int Level, class V, class F, class FS, class EX, class K>
static vj::value fchain(const std::vector<step_t>& st, size_t i, const V& v, const F& F_, const FS& fs, const EX& ex, K&& k) {
    if (i == st.size()) return k(v, F_, fs, ex);
    if constexpr (Level >= MAXD) return crash_res("driver:program deeper than the compiled depth");
    else return fstep<Level>(st[i], v, F_, fs, ex, [&](const auto& nv, const auto& nF, const auto& nfs, const auto& nex) { return fchain<Level + 1>(st, i + 1, nv, nF, nfs, nex, k); });
}

// apply a functor to operands one at a time (currying)
template <class F, class A> static auto curry_all(const F& f, const A& a) { return f(a); }
template <class F, class A, class B, class... R> static auto curry_all(const F& f, const A& a, const B& b, const R&... r) { return curry_all(f(a), b, r...); }

static vj::value ints_res(const std::vector<long>& v) { vj::value r = vj::value::object(); r.set("ok", true).set("crash", "").set("shape", vj::value::array()).set("elems", vj::value(v)); return r; }

template <class V, class F, class FS, class EX>
static vj::value finish(const std::string& variant, const dyn_t<long>& a, const V& v, const F& F_, const FS& fs, const EX& ex) {
    if constexpr (std::is_same_v<F, none_f>) return crash_res("driver:empty program");
    else {
    if (variant == "view") return project(v);
    if (variant == "oneshot") return std::apply([&](auto... e) { return project(F_(a, *e...)); }, ex);
    if (variant == "curry") return std::apply([&](auto... e) { return project(curry_all(F_, a, *e...)); }, ex);
    if (variant == "regroup_l" || variant == "regroup_r") {
        constexpr auto N = std::tuple_size_v<FS>;
        if constexpr (N == 3) {
            auto f1 = std::get<0>(fs); auto f2 = std::get<1>(fs); auto f3 = std::get<2>(fs);
            if (variant == "regroup_l") { auto G = (f3 * f2) * f1; return std::apply([&](auto... e) { return project(G(a, *e...)); }, ex); }
            auto G = f3 * (f2 * f1); return std::apply([&](auto... e) { return project(G(a, *e...)); }, ex);
        } else if constexpr (N == 2) {
            auto f1 = std::get<0>(fs); auto f2 = std::get<1>(fs);
            if (variant == "regroup_l") { auto r1 = std::apply([&](auto... e) { return (f2 * f1)(a, *e...); }, ex); return project(r1); }
            // f applied to the result of g, remaining operands passed on
            constexpr auto ar1 = decltype(f1)::arity;
            if constexpr (ar1 == 1) { auto inner = f1(a); return std::apply([&](auto... e) { return project(f2(nm::unwrap(inner), *e...)); }, ex); }
            else return std::apply([&](auto e0, auto... e) { auto inner = f1(a, *e0); return project(f2(nm::unwrap(inner), *e...)); }, ex);
        } else return crash_res("driver:unsupported");
    }
    if (variant == "extract") {
        auto f = fn::get_function_composition(v);
        const auto& ops = fn::get_function_operands(v);
        return project(fn::apply(f, ops));
    }
    if (variant == "operands") {
        const auto& ops = fn::get_function_operands(v);
        constexpr auto N = meta::len_v<meta::remove_cvref_t<decltype(ops)>>;
        std::vector<long> ids;
        meta::template_for<N>([&](auto I) {
            const auto& o = nmtools::get<decltype(I)::value>(ops);
            using O = meta::remove_cvref_t<decltype(o)>;
            long id = -1;
            if constexpr (std::is_pointer_v<O>) {
                if ((const void*)o == (const void*)&a) id = 0;
                long j = 0; std::apply([&](auto... e) { ((j++, ((const void*)o == (const void*)e ? id = j : 0)), ...); }, ex);
            }
            ids.push_back(id);
        });
        return ints_res(ids);
    }
    if (variant == "graph") {
        auto g = nm::unwrap(fn::get_compute_graph(v));
        auto nodes = g.nodes(); auto edges = g.out_edges();
        constexpr auto NN = meta::len_v<decltype(nodes)>; constexpr auto NE = meta::len_v<decltype(edges)>;
        std::vector<long> ids; long leaves = 0, fns = 0, arity_ok = 1;
        meta::template_for<NN>([&](auto I) {
            auto key = nmtools::get<decltype(I)::value>(nodes); long kid = (long)meta::remove_cvref_t<decltype(key)>::value; ids.push_back(kid);
            auto data = g.nodes(key);
            using D = meta::remove_cvref_t<decltype(data)>;
            if constexpr (std::is_pointer_v<D> || meta::is_num_v<D>) leaves++;
            else {
                fns++;
                // in-degree = number of edges ending at this node must equal the number of operands the node lists
                long indeg = 0;
                meta::template_for<NE>([&](auto J) { auto e = nmtools::get<decltype(J)::value>(edges); if ((long)meta::remove_cvref_t<decltype(nmtools::get<1>(e))>::value == kid) indeg++; });
                constexpr long nops = (long)meta::len_v<typename D::operands_type>;
                if (indeg != nops) arity_ok = 0;
            }
        });
        auto sorted = ids; std::sort(sorted.begin(), sorted.end()); bool uniq = std::adjacent_find(sorted.begin(), sorted.end()) == sorted.end();
        return ints_res({leaves, uniq ? 1 : 0, arity_ok, (long)NN - leaves - fns, (long)NE >= (long)NN - 1 ? 1 : 0});
    }
    return crash_res("driver:variant");
    }
}

// "tree" cases: f(va(a), vb(b)) with the nested view on either side; variant view = the view itself,
// extract = the extracted function composition applied to the extracted operands
template <class V> static vj::value tree_finish(const std::string& variant, const V& v) {
    if constexpr (meta::is_maybe_v<V>) { if (!static_cast<bool>(v)) { auto n = nothing_res(); n.set("maybe", true); return n; } return tree_finish(variant, *v); }
    else {
        if (variant == "view") return project(v);
        auto f = fn::get_function_composition(v);
        const auto& ops = fn::get_function_operands(v);
        return project(fn::apply(f, ops));
    }
}
template <class A, class B> static vj::value tree_op(const std::string& f, const std::string& variant, const A& a, const B& b) {
    if (f == "add") return tree_finish(variant, view::add(a, b));
    return tree_finish(variant, view::subtract(a, b));
}
template <class A> static vj::value tree_rhs(const vj::value& c, const A& a, const dyn_t<long>& b) {
    std::string vb = c["args"]["vb"].as_str(), f = c["args"]["f"].as_str(), variant = c["variant"].as_str();
    if (vb == "id") return tree_op(f, variant, a, b);
    if (vb == "transpose") return tree_op(f, variant, a, view::transpose(b, nm::None));
    return tree_op(f, variant, a, view::flatten(b));
}
static vj::value tree(const vj::value& c) {
    auto a = make_leaf<long>(c["shapes"][0].as_vec<long>(), 0); auto b = make_leaf<long>(c["shapes"][1].as_vec<long>(), 1);
    std::string va = c["args"]["va"].as_str();
    if (va == "id") return tree_rhs(c, a, b);
    if (va == "transpose") return tree_rhs(c, view::transpose(a, nm::None), b);
    return tree_rhs(c, view::flatten(a), b);
}

// "chain3" cases: f3(f2(f1(a))) over {negative, square, add b, subtract b}: depth-3 view types without the depth-3 program binaries
template <int Level, class V> static vj::value chain3(const std::vector<std::string>& ops, const std::string& variant, const V& v, const dyn_t<long>& b) {
    if constexpr (meta::is_maybe_v<V>) { if (!static_cast<bool>(v)) { auto n = nothing_res(); n.set("maybe", true); return n; } return chain3<Level>(ops, variant, *v, b); }
    else if constexpr (Level == 3) return tree_finish(variant, v);
    else {
        const std::string& o = ops[Level];
        if (o == "negative") return chain3<Level + 1>(ops, variant, view::negative(v), b);
        if (o == "square") return chain3<Level + 1>(ops, variant, view::square(v), b);
        if (o == "add_b") return chain3<Level + 1>(ops, variant, view::add(v, b), b);
        return chain3<Level + 1>(ops, variant, view::subtract(v, b), b);
    }
}

static vj::value handle(const vj::value& c) {
#if !defined(FIRST_IDX) || FIRST_IDX == 0
    if (c["op"].as_str() == "tree") return tree(c);
    if (c["op"].as_str() == "chain3") {
        auto a = make_data<long>(c["shapes"][0].as_vec<long>(), c["data"][0].as_vec<long>()); auto b = make_data<long>(c["shapes"][1].as_vec<long>(), c["data"][1].as_vec<long>());
        std::vector<std::string> ops; for (size_t i = 0; i < 3; i++) ops.push_back(c["args"]["ops"][i].as_str());
        return chain3<0>(ops, c["variant"].as_str(), a, b);
    }
#endif
    std::vector<step_t> st;
    for (size_t i = 0; i < c["prog"].size(); i++) st.push_back(parse_step(c["prog"][i]));
    auto a = make_leaf<long>(c["shapes"][0].as_vec<long>(), 0);
    std::string variant = c["variant"].as_str();
    return fchain<0>(st, 0, a, none_f{}, std::tuple<>{}, std::tuple<>{}, [&](const auto& v, const auto& F_, const auto& fs, const auto& ex) { return finish(variant, a, v, F_, fs, ex); });
}
int main(int argc, char** argv) { return run_driver(argc, argv, handle); }
