// C11 driver, binary views: two leaves of (possibly different) static-knowledge kinds under concatenate (run-time and
// compile-time axis), add (broadcast), stack, and the traits of the resulting view TYPE next to shape / dim / size /
// elements of the OBJECT and of eval()'s result.  One binary per kind of the first operand (-DFIRST_KIND=n).
#include "verif/driver.hpp"
#include "verif/arrays.hpp"
#include "nmtools/array/eval.hpp"
#include "nmtools/array/view/concatenate.hpp"
#include "nmtools/array/view/stack.hpp"
#include "nmtools/array/view/ufuncs/add.hpp"

using namespace verif;
namespace view = nmtools::view;
using namespace nmtools::literals;

template <class T> static vj::value trait_val(const T& t) {
    vj::value a = vj::value::array();
    if constexpr (!meta::is_fail_v<T>) { if constexpr (meta::is_index_v<T> || std::is_integral_v<T>) a.push((long)t); else a.push(vj::value(shape_vec(t))); }
    return a;
}
template <class V> static vj::value traits_of() {
    vj::value r = vj::value::object();
    r.set("fixed_shape", trait_val(meta::fixed_shape_v<V>)).set("fixed_dim", trait_val(meta::fixed_dim_v<V>)).set("fixed_size", trait_val(meta::fixed_size_v<V>))
     .set("bounded_dim", trait_val(meta::bounded_dim_v<V>)).set("bounded_size", trait_val(meta::bounded_size_v<V>));
    return r;
}
template <class V> static vj::value report(const V& v) {
    if constexpr (meta::is_maybe_v<V>) { if (!static_cast<bool>(v)) { auto n = nothing_res(); n.set("maybe", true); return n; } return report(*v); }
    else if constexpr (meta::is_fail_v<V>) return crash_res("driver:combination rejected at compile time");
    else {
        auto lazy = project(v);
        auto ev = na::eval(v, nm::None, nm::None, na::RowMajorResolver);
        auto pe = project(ev);
        vj::value r = vj::value::object();
        r.set("ok", true).set("crash", "").set("dtype", "int").set("traits", traits_of<V>()).set("shape", lazy["shape"]).set("elems", lazy["elems"])
         .set("dim", (long)nm::dim(v)).set("size", (long)nm::size(v)).set("eval_shape", pe["shape"]).set("eval_elems", pe["elems"]).set("eval_traits", traits_of<meta::remove_cvref_t<decltype(ev)>>());
        return r;
    }
}
template <class A> static bool admit(A& a, const std::vector<size_t>& shp) {
    if constexpr (meta::is_constant_index_array_v<typename A::shape_type>) { auto s = shape_vec(nm::shape(a)); return std::vector<long>(shp.begin(), shp.end()) == s; }
    else return a.resize(shp);
}
template <class A> static bool fill(A& a, const std::vector<size_t>& shp, long base) {
    if (!admit(a, shp)) return false;
    size_t n = 1; for (auto x : shp) n *= x; for (size_t p = 0; p < n; p++) a.data()[p] = base + (long)p + 1;
    return true;
}
using L = long; using S = size_t;
using K_dyn = na::ndarray_t<std::vector<L>, std::vector<S>>;
using K_const23 = na::ndarray_t<std::array<L, 6>, nmtools_tuple<meta::ct<2>, meta::ct<3>>>;
using K_fixdim2 = na::ndarray_t<std::vector<L>, std::array<S, 2>>;
using K_bounddim3 = na::ndarray_t<std::vector<L>, nmtools_static_vector<S, 3>>;
using K_clip33 = na::ndarray_t<nmtools_static_vector<L, 9>, nmtools_array<nm::clipped_size_t<3>, 2>>;
using K_clip46 = na::ndarray_t<nmtools_static_vector<L, 24>, nmtools_tuple<nm::clipped_size_t<4>, nm::clipped_size_t<6>>>;
using K_boundsize6 = na::ndarray_t<nmtools_static_vector<L, 6>, std::array<S, 2>>;

template <int I> struct kind_of;
template <> struct kind_of<0> { using type = K_dyn; };
template <> struct kind_of<1> { using type = K_const23; };
template <> struct kind_of<2> { using type = K_fixdim2; };
template <> struct kind_of<3> { using type = K_bounddim3; };
template <> struct kind_of<4> { using type = K_clip33; };
template <> struct kind_of<5> { using type = K_clip46; };
template <> struct kind_of<6> { using type = K_boundsize6; };
static int kind_index(const std::string& k) { const char* n[] = {"dyn", "const23", "fixdim2", "bounddim3", "clip33", "clip46", "boundsize6"}; for (int i = 0; i < 7; i++) if (k == n[i]) return i; return -1; }
static int form_index(const std::string& op, const std::string& f) { const char* n[] = {"concatenate/rt0", "concatenate/ct0", "concatenate/rtm1", "concatenate/none", "add/-", "stack/-"}; for (int i = 0; i < 6; i++) if (op + "/" + f == n[i]) return i; return -1; }

// one combination (first kind, second kind, operation form); which combinations compile is recorded in static2_combos.inc
// (found by tools/probe_static2.py, one trial compilation per combination: the others are compile-time errors of the library)
template <int AI, int BI, int FI> static vj::value combo(const vj::value& c) {
    typename kind_of<AI>::type a; typename kind_of<BI>::type b;
    if (!fill(a, c["shapes"][0].as_vec<size_t>(), 0) || !fill(b, c["shapes"][1].as_vec<size_t>(), 1000)) return crash_res("driver:shape not admitted by the leaf kind");
    if constexpr (FI == 0) return report(view::concatenate(a, b, 0));
    else if constexpr (FI == 1) return report(view::concatenate(a, b, 0_ct));
    else if constexpr (FI == 2) return report(view::concatenate(a, b, -1));
    else if constexpr (FI == 3) return report(view::concatenate(a, b, nm::None));
    else if constexpr (FI == 4) return report(view::add(a, b));
    else return report(view::stack(a, b, 0));
}
#ifndef FIRST_KIND
#define FIRST_KIND 0
#endif
static vj::value handle(const vj::value& c) {
    int ai = kind_index(c["kinds"][0].as_str()), bi = kind_index(c["kinds"][1].as_str()), fi = form_index(c["op"].as_str(), c["args"]["form"].as_str());
#ifdef PROBE_A
    if (ai == PROBE_A && bi == PROBE_B && fi == PROBE_F) return combo<PROBE_A, PROBE_B, PROBE_F>(c);
#else
    #define COMBO(A, B, F) if (A == FIRST_KIND && ai == A && bi == B && fi == F) { if constexpr (A == FIRST_KIND) return combo<A, B, F>(c); }
    #include "static2_combos.inc"
#endif
    return crash_res("driver:combination not compiled (compile-time error of the library or another binary)");
}
int main(int argc, char** argv) { return run_driver(argc, argv, handle); }
