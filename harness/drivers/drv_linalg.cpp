// C16 driver: linear-algebra views on dynamic integer arrays.
#include "verif/driver.hpp"
#include "verif/arrays.hpp"
#include "nmtools/array/view/matmul.hpp"
#include "nmtools/array/view/dot.hpp"
#include "nmtools/array/view/inner.hpp"
#include "nmtools/array/view/outer.hpp"
#include "nmtools/array/view/vecdot.hpp"
#include "nmtools/array/view/tensordot.hpp"
#include "nmtools/array/view/kron.hpp"
#include "nmtools/array/view/trace.hpp"

using namespace verif;
namespace view = nmtools::view;

static dyn_t<long> small_leaf(const std::vector<long>& shp, long j) {
    // small injective data so that sums of products stay far below 2^31: element p of operand j is 7*j + p + 1
    dyn_t<long> a; std::vector<size_t> s(shp.begin(), shp.end()); a.resize(s);
    size_t n = 1; for (auto x : s) n *= x;
    for (size_t p = 0; p < n; p++) a.data()[p] = 7 * j + (long)p + 1;
    return a;
}
static vj::value handle(const vj::value& c) {
    const std::string op = c["op"].as_str(); const auto& g = c["args"];
    auto operand = [&](size_t j) { auto shp = c["shapes"][j].as_vec<long>(); if (c.has("data")) return make_data<long>(shp, c["data"][j].as_vec<long>()); return small_leaf(shp, (long)j); };
    auto a = operand(0);
    if (op == "trace") return project(view::trace(a, (int)g["offset"].as_int(), (int)g["axis1"].as_int(), (int)g["axis2"].as_int()));
    auto b = operand(1);
    if (op == "matmul") return project(view::matmul(a, b));
    if (op == "matmulv2") return project(view::matmulv2(a, b));
    if (op == "dot") return project(view::dot(a, b));
    if (op == "inner") return project(view::inner(a, b));
    if (op == "outerp") return project(view::outer(a, b));
    if (op == "vecdot") return project(view::vecdot(a, b));
    if (op == "kron") return project(view::kron(a, b));
    if (op == "tensordot") {
        if (g["int"].as_bool()) return project(view::tensordot(a, b, (int)g["n"].as_int()));
        return project(view::tensordot(a, b, nmtools_tuple{g["axa"].as_vec<int>(), g["axb"].as_vec<int>()}));
    }
    return crash_res("unknown op " + op);
}
int main(int argc, char** argv) { return run_driver(argc, argv, handle); }
