// C08 driver: reductions and accumulations on dynamic arrays: the recording operation (mix) and the named reducers with
// every axis form (int, list, None), initial, dtype and keepdims (compile-time and run-time), and the derived routines.
#include "verif/driver.hpp"
#include "verif/arrays.hpp"
#include "nmtools/array/view/ufunc.hpp"
#include "nmtools/array/view/ufuncs/add.hpp"
#include "nmtools/array/view/ufuncs/multiply.hpp"
#include "nmtools/array/view/ufuncs/maximum.hpp"
#include "nmtools/array/view/ufuncs/minimum.hpp"
#include "nmtools/array/view/ufuncs/amax.hpp"
#include "nmtools/array/view/ufuncs/amin.hpp"
#include "nmtools/array/view/ufuncs/bitwise_and.hpp"
#include "nmtools/array/view/ufuncs/bitwise_or.hpp"
#include "nmtools/array/view/ufuncs/bitwise_xor.hpp"
#include "nmtools/array/view/sum.hpp"
#include "nmtools/array/view/prod.hpp"
#include "nmtools/array/view/mean.hpp"
#include "nmtools/array/view/var.hpp"
#include "nmtools/array/view/stddev.hpp"
#include "nmtools/array/view/cumsum.hpp"
#include "nmtools/array/view/cumprod.hpp"
#include "nmtools/array/view/vector_norm.hpp"
#include <cmath>
#include <variant>

using namespace verif;
namespace view = nmtools::view;

struct mix_t { template <class T, class U> constexpr auto operator()(const T& a, const U& b) const { return (long)((((31 * (long)a + 17 * (long)b + 7) % 10007) + 10007) % 10007); } };

static dyn_t<long> operand(const vj::value& c, size_t j) {
    auto shp = c["shapes"][j].as_vec<long>();
    if (c.has("data")) return make_data<long>(shp, c["data"][j].as_vec<long>());
    return make_leaf<long>(shp, (long)j);
}

// result may be a view, a maybe<view>, a number, or an either/variant of views (run-time keepdims)
template <class V> static vj::value proj_any(const V& v) {
    if constexpr (meta::is_either_v<V>) {
        using L = meta::get_either_left_t<V>; using R = meta::get_either_right_t<V>;
        if (auto p = nm::get_if<L>(&v)) return proj_any(*p);
        if (auto p = nm::get_if<R>(&v)) return proj_any(*p);
        return crash_res("driver:empty either");
    } else if constexpr (meta::is_maybe_v<V>) {
        if (!static_cast<bool>(v)) return nothing_res();
        return proj_any(*v);
    } else return project(v);
}

// scale real-valued results to the integers the specification computes: x * mul (+ squared when sq)
template <class V> static vj::value scaled(const V& v, double mul, bool sq) {
    auto p = proj_any(v);
    if (!p["ok"].as_bool()) return p;
    vj::value el = vj::value::array();
    for (size_t i = 0; i < p["elems"].size(); i++) {
        const auto& e = p["elems"][i];
        double x = e.is_str() ? strtod(e.as_str().c_str() + 2, nullptr) : e.as_dbl();
        double y = (sq ? x * x : x) * mul; double rr = std::nearbyint(y);
        el.push((long)(std::fabs(y - rr) <= 1e-6 * (1 + std::fabs(rr)) ? rr : 999999999));
    }
    p.set("elems", el);
    return p;
}

// dispatch on the axis form, initial and keepdims; F(axis, initial, keepdims) performs the call
template <class F> static vj::value with_args(const vj::value& g, F&& f) {
    auto with_keep = [&](auto axis, auto init) {
        std::string kd = g["keepdims"].as_str();       // "F", "T" (compile time), "f", "t" (run time)
        if (kd == "F") return f(axis, init, nm::False);
        if (kd == "T") return f(axis, init, nm::True);
        return f(axis, init, kd == "t");
    };
    auto with_init = [&](auto axis) {
        if (g["initial"].size() == 0) return with_keep(axis, nm::None);
        return with_keep(axis, (long)g["initial"][0].as_int());
    };
    if (g["axis"].size() == 0) return with_init(nm::None);
    auto ax = g["axis"][0].as_vec<int>();
    if (g["axis_int"].as_bool()) return with_init(ax[0]);
    return with_init(ax);
}

#define RED(name) if (op == "reduce_" #name) return with_args(g, [&](auto axis, auto init, auto keep) { return proj_any(view::reduce_##name(a, axis, nm::None, init, keep)); });
#define ACC(name) if (op == "accumulate_" #name) return proj_any(view::accumulate_##name(a, (int)g["axis"].as_int()));

static vj::value handle(const vj::value& c) {
    const std::string op = c["op"].as_str();
    const auto& g = c["args"];
    auto a = operand(c, 0);
    if (op == "reduce_mix") return with_args(g, [&](auto axis, auto init, auto keep) { return proj_any(view::reduce(mix_t{}, a, axis, nm::None, init, keep)); });
    RED(add) RED(multiply) RED(maximum) RED(minimum)
    if (op == "reduce_add_f") return with_args(g, [&](auto axis, auto init, auto keep) { return proj_any(view::reduce_add(a, axis, nm::float64, init, keep)); });
    if (op == "sum") return with_args(g, [&](auto axis, auto init, auto keep) { return proj_any(view::sum(a, axis, nm::None, init, keep)); });
    if (op == "prod") return with_args(g, [&](auto axis, auto init, auto keep) { return proj_any(view::prod(a, axis, nm::None, init, keep)); });
    if (op == "amax") return with_args(g, [&](auto axis, auto init, auto keep) { return proj_any(view::amax(a, axis, nm::None, init, keep)); });
    if (op == "amin") return with_args(g, [&](auto axis, auto init, auto keep) { return proj_any(view::amin(a, axis, nm::None, init, keep)); });
    if (op == "accumulate_mix") return proj_any(view::accumulate(mix_t{}, a, (int)g["axis"].as_int()));
    ACC(add) ACC(multiply) ACC(maximum)
    if (op == "cumsum") return proj_any(view::cumsum(a, (int)g["axis"].as_int()));
    if (op == "cumprod") return proj_any(view::cumprod(a, (int)g["axis"].as_int()));
    double mul = g.has("mul") ? (double)g["mul"].as_int() : 1.0;
    // dtype absent on a narrow integer source (args.etype i8 / u8): the statistics must not be folded in the element type
    if (g.has("etype")) {
        auto narrow = [&](auto tag) -> vj::value {
            using T = decltype(tag);
            auto k = c["data"][0].as_vec<long>(); std::vector<T> d; for (auto x : k) d.push_back((T)x);
            auto b = make_data<T>(c["shapes"][0].as_vec<long>(), d);
            if (op == "sum" || op == "reduce_add") {
                // an explicit result dtype wider than the source element type: the fold must run in the dtype
                std::string dt = g["dtype"].as_str();
                return with_args(g, [&](auto axis, auto init, auto keep) -> vj::value {
                    if (dt == "i32") return proj_any(view::sum(b, axis, nm::int32, init, keep));
                    if (dt == "i64") return proj_any(view::sum(b, axis, nm::int64, init, keep));
                    return proj_any(view::sum(b, axis, nm::float64, init, keep)); });
            }
            if (op == "mean") return with_args(g, [&](auto axis, auto, auto keep) { return scaled(view::mean(b, axis, nm::None, keep), mul, false); });
            if (op == "var") return with_args(g, [&](auto axis, auto, auto keep) { return scaled(view::var(b, axis, nm::None, 0, keep), mul, false); });
            if (op == "stddev") return with_args(g, [&](auto axis, auto, auto keep) { return scaled(view::stddev(b, axis, nm::None, 0, keep), mul, true); });
            return crash_res("driver:unsupported");
        };
        if (g["etype"].as_str() == "i8") return narrow((int8_t)0);
        if (g["etype"].as_str() == "u8") return narrow((uint8_t)0);
        return narrow((int16_t)0);
    }
    if (op == "mean") return with_args(g, [&](auto axis, auto, auto keep) { return scaled(view::mean(a, axis, nm::float64, keep), mul, false); });
    if (op == "var") return with_args(g, [&](auto axis, auto, auto keep) { return scaled(view::var(a, axis, nm::float64, 0, keep), mul, false); });
    if (op == "stddev") return with_args(g, [&](auto axis, auto, auto keep) { return scaled(view::stddev(a, axis, nm::float64, 0, keep), mul, true); });
    if (op == "vector_norm") return with_args(g, [&](auto axis, auto, auto keep) { return scaled(view::vector_norm(a, axis, keep), 1.0, true); });
    return crash_res("unknown op " + op);
}
int main(int argc, char** argv) { return run_driver(argc, argv, handle); }
