// C12 driver: evaluates element-wise, broadcast-binary, outer, reduction and matmul operations with the default
// (scalar) evaluator and with SIMD contexts: the tracing context (logs every packed load/store of the real evaluator
// code, lane counts 2/4/8/16 floats) and the real x86 SSE / AVX and compiler vector-extension contexts.
#include "verif/simd_trace_ctx.hpp"
#include "verif/driver.hpp"
#include "verif/arrays.hpp"
#include "nmtools/array/eval/simd/x86_sse.hpp"
#include "nmtools/array/eval/simd/x86_avx.hpp"
#include "nmtools/array/eval/simd/vector_128.hpp"
#include "nmtools/array/eval/simd/vector_256.hpp"
#include "nmtools/array/eval/simd/vector_512.hpp"
#include "nmtools/array/array/ufuncs/add.hpp"
#include "nmtools/array/array/ufuncs/subtract.hpp"
#include "nmtools/array/array/ufuncs/multiply.hpp"
#include "nmtools/array/array/ufuncs/divide.hpp"
#include "nmtools/array/array/ufuncs/sqrt.hpp"
#include "nmtools/array/array/ufuncs/ceil.hpp"
#include "nmtools/array/array/ufuncs/floor.hpp"
#include "nmtools/array/array/activations/relu.hpp"
#include "nmtools/array/array/activations/relu6.hpp"
#include "nmtools/array/array/activations/hardtanh.hpp"
#include "nmtools/array/array/activations/leaky_relu.hpp"
#include "nmtools/array/array/activations/prelu.hpp"
#include "nmtools/array/array/activations/softshrink.hpp"
#include "nmtools/array/array/activations/softsign.hpp"
#include "nmtools/array/array/activations/hardshrink.hpp"
#include "nmtools/array/array/activations/hardswish.hpp"
#include "nmtools/array/array/matmul.hpp"
#include <cstring>

using namespace verif;
namespace simd = nmtools::array::simd;

// reductions (reduce, matmul) are "equal up to re-association": a sum that is zero may come out as +0.0 or -0.0 depending on
// the order and on the accumulator's start; both sides are logged with the sign of zero dropped for those operations
static bool g_drop_zero_sign = false;
template <class T> static std::string bits(T x) {
    char buf[40];
    if (g_drop_zero_sign && x == (T)0) x = (T)0;
    if constexpr (sizeof(T) == 4) { uint32_t u; std::memcpy(&u, &x, 4); snprintf(buf, sizeof buf, "x%08x", u); }
    else { uint64_t u; std::memcpy(&u, &x, 8); snprintf(buf, sizeof buf, "x%016llx", (unsigned long long)u); }
    return buf;
}
struct region_t { const char* base; size_t bytes; };
template <class R> static vj::value proj_bits(const R& r, std::vector<region_t>* regions) {
    if constexpr (meta::is_maybe_v<R>) { if (!static_cast<bool>(r)) { vj::value n = vj::value::object(); n.set("ok", false).set("shape", vj::value::array()).set("elems", vj::value::array()); return n; } return proj_bits(*r, regions); }
    else if constexpr (meta::is_num_v<R>) { vj::value n = vj::value::object(); vj::value el = vj::value::array(); el.push(bits(r)); n.set("ok", true).set("shape", vj::value::array()).set("elems", el); return n; }
    else {
        auto shp = shape_vec(nm::shape(r)); size_t n = 1; for (auto x : shp) n *= x;
        vj::value el = vj::value::array();
        std::vector<size_t> s(shp.begin(), shp.end());
        if (s.empty()) el.push(bits(nm::apply_at(r, std::vector<size_t>{})));
        else { auto nd = nm::index::ndindex(s); for (size_t i = 0; i < n; i++) el.push(bits(nm::apply_at(r, nd[i]))); }
        if (regions) regions->push_back({(const char*)nm::data(r), n * sizeof(*nm::data(r))});
        vj::value v = vj::value::object(); v.set("ok", true).set("shape", vj::value(shp)).set("elems", el); return v;
    }
}

// an access belongs to the buffer that contains its first byte; otherwise to the nearest known buffer within 256 bytes
// (an overrun / underrun of that buffer); otherwise it is an evaluator-internal temporary (region -1, not checked)
static void classify(const std::vector<region_t>& regions, const vtrace::access_t& x, long& reg, long& off, long& len) {
    const char* p = (const char*)x.ptr;
    for (size_t q = 0; q < regions.size(); q++) { auto& R = regions[q]; if (p >= R.base && p < R.base + R.bytes) { reg = (long)q; off = p - R.base; len = (long)R.bytes; return; } }
    for (size_t q = 0; q < regions.size(); q++) { auto& R = regions[q]; if (p >= R.base - 256 && p < R.base + R.bytes + 256) { reg = (long)q; off = p - R.base; len = (long)R.bytes; return; } }
}

template <class T, class Ctx> static vj::value run_op(const vj::value& c, Ctx ctx, bool traced) {
    const std::string op = c["op"].as_str(); const auto& g = c["args"];
    g_drop_zero_sign = op.rfind("reduce_", 0) == 0 || op == "matmul";
    auto mk = [&](size_t j) { std::vector<T> d; for (size_t i = 0; i < c["data"][j].size(); i++) d.push_back((T)c["data"][j][i].as_dbl()); return make_data<T>(c["shapes"][j].as_vec<long>(), d); };
    auto a = mk(0);
    std::vector<region_t> regions{{(const char*)a.data(), a.size() * sizeof(T)}};
    vj::value scalar, vec;
    vtrace::log().clear();
    auto both = [&](auto&& call) {
        scalar = proj_bits(call(nm::None), nullptr);
        vtrace::log().clear();
        auto r = call(ctx);
        vec = proj_bits(r, &regions);
        // classify the logged accesses against the operand and result buffers (still alive here)
        vj::value acc = vj::value::array();
        if (traced) for (auto& x : vtrace::log()) {
            long reg = -1, off = 0, len = 0;
            classify(regions, x, reg, off, len);
            vj::value e = vj::value::array(); e.push((long)x.kind); e.push(reg); e.push(off); e.push((long)x.bytes); e.push(len); acc.push(e);
        }
        vj::value res = vj::value::object(); res.set("crash", "").set("scalar", scalar).set("simd", vec).set("acc", acc); return res;
    };
    if (op == "sqrt") return both([&](auto cx) { return na::sqrt(a, cx); });
    if (op == "ceil") return both([&](auto cx) { return na::ceil(a, cx); });
    if (op == "floor") return both([&](auto cx) { return na::floor(a, cx); });
    if (op == "relu") return both([&](auto cx) { return na::relu(a, cx); });
    if (op == "relu6") return both([&](auto cx) { return na::relu6(a, cx); });
    if (op == "hardtanh") return both([&](auto cx) { return na::hardtanh(a, (T)-1, (T)1, cx); });
    if (op == "leaky_relu") return both([&](auto cx) { return na::leaky_relu(a, (T)0.25, cx); });
    if (op == "prelu") return both([&](auto cx) { return na::prelu(a, (T)0.25, cx); });
    if (op == "softshrink") return both([&](auto cx) { return na::softshrink(a, (T)0.5, cx); });
    if (op == "softsign") return both([&](auto cx) { return na::softsign(a, cx); });
    if (op == "hardshrink") return both([&](auto cx) { return na::hardshrink(a, (T)0.5, cx); });
    if (op == "hardswish") return both([&](auto cx) { return na::hardswish(a, cx); });
    if (op == "reduce_add" || op == "reduce_multiply") {
        auto keep = g["keepdims"].as_bool();
        auto red = [&](auto axis, auto cx) { if (op == "reduce_add") { if (keep) return proj_bits(na::add.reduce(a, axis, nm::None, nm::None, nm::True, cx), &regions); return proj_bits(na::add.reduce(a, axis, nm::None, nm::None, nm::False, cx), &regions); }
                                            if (keep) return proj_bits(na::multiply.reduce(a, axis, nm::None, nm::None, nm::True, cx), &regions); return proj_bits(na::multiply.reduce(a, axis, nm::None, nm::None, nm::False, cx), &regions); };
        vj::value res = vj::value::object();
        if (g["axis"].size() == 0) { res.set("scalar", red(nm::None, nm::None)); vtrace::log().clear(); res.set("simd", red(nm::None, ctx)); }
        else { int ax = (int)g["axis"][0].as_int(); res.set("scalar", red(ax, nm::None)); vtrace::log().clear(); res.set("simd", red(ax, ctx)); }
        vj::value acc = vj::value::array();
        if (traced) for (auto& x : vtrace::log()) { long reg = -1, off = 0, len = 0; classify(regions, x, reg, off, len);
            if (true) { vj::value e = vj::value::array(); e.push((long)x.kind); e.push(reg); e.push(off); e.push((long)x.bytes); e.push(len); acc.push(e); } }
        res.set("crash", "").set("acc", acc); return res;
    }
    auto b = mk(1);
    regions.push_back({(const char*)b.data(), b.size() * sizeof(T)});
    if (op == "add") return both([&](auto cx) { return na::add(a, b, cx); });
    if (op == "subtract") return both([&](auto cx) { return na::subtract(a, b, cx); });
    if (op == "multiply") return both([&](auto cx) { return na::multiply(a, b, cx); });
    if (op == "divide") return both([&](auto cx) { return na::divide(a, b, cx); });
    if (op == "outer_add") return both([&](auto cx) { return na::add.outer(a, b, nm::None, cx); });
    if (op == "outer_multiply") return both([&](auto cx) { return na::multiply.outer(a, b, nm::None, cx); });
    if (op == "matmul") {
        // the SIMD matmul evaluator statically requires a column-major right-hand side
        na::column_major_ndarray_t<std::vector<T>, std::vector<size_t>> bc; auto shp = c["shapes"][1].as_vec<long>(); std::vector<size_t> us(shp.begin(), shp.end()); bc.resize(us);
        { size_t n = 1; for (auto x : us) n *= x; auto nd = nm::index::ndindex(us); for (size_t i = 0; i < n; i++) nm::apply_at(bc, nd[i]) = b.data()[i]; }
        regions.back() = {(const char*)bc.data(), bc.size() * sizeof(T)};
        return both([&](auto cx) { return na::matmul(a, bc, cx); });
    }
    return crash_res("unknown op " + op);
}

template <class T> static vj::value by_ctx(const vj::value& c) {
    std::string ctx = c["ctx"].as_str();
    if (ctx == "trace64") return run_op<T>(c, na::simd_base_t<vtrace::tag_t<64>>{}, true);
    if (ctx == "trace128") return run_op<T>(c, na::simd_base_t<vtrace::tag_t<128>>{}, true);
    if (ctx == "trace256") return run_op<T>(c, na::simd_base_t<vtrace::tag_t<256>>{}, true);
    if (ctx == "trace512") return run_op<T>(c, na::simd_base_t<vtrace::tag_t<512>>{}, true);
    if (ctx == "sse") return run_op<T>(c, simd::x86_SSE, false);
    if (ctx == "avx") return run_op<T>(c, simd::x86_AVX, false);
    if (ctx == "v128") return run_op<T>(c, simd::vector_128, false);
    if (ctx == "v256") return run_op<T>(c, simd::vector_256, false);
    if (ctx == "v512") return run_op<T>(c, simd::vector_512, false);
    return crash_res("unknown ctx");
}
static vj::value handle(const vj::value& c) { if (c["dtype"].as_str() == "double") return by_ctx<double>(c); return by_ctx<float>(c); }
int main(int argc, char** argv) { return run_driver(argc, argv, handle); }
