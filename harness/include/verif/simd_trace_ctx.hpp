// A SIMD "context" with a configurable lane count whose load/store operations log the accessed address ranges.
// It plugs into the real SIMD evaluators through the documented extension seam (simd_op_t<tag,T> and
// meta::bit_width<tag> specialisations): the evaluator code that runs is the repository's own.
#pragma once
#include "nmtools/array/eval/simd/ufunc.hpp"
#include "nmtools/array/eval/simd/evaluator.hpp"
#include "nmtools/array/eval/simd/bit_width.hpp"
#include <array>
#include <cmath>
#include <vector>

namespace vtrace {
    struct access_t { int kind; const void* ptr; size_t bytes; };     // kind 0 = load, 1 = store
    inline std::vector<access_t>& log() { static std::vector<access_t> l; return l; }
    template <int BITS> struct tag_t {};
}
namespace nmtools::meta { template <int BITS> struct bit_width<vtrace::tag_t<BITS>> { static constexpr auto value = BITS; }; }
namespace nmtools::array::simd {
    template <int BITS, typename T>
    struct simd_op_t<vtrace::tag_t<BITS>, T, meta::enable_if_t<meta::is_floating_point_v<T>>> {
        using data_t = T;
        static constexpr inline auto bit_width = BITS;
        static constexpr int N = BITS / (int)(sizeof(T) * 8);
        using packed_t = std::array<T, N>;
        static auto loadu(const T* p) noexcept { vtrace::log().push_back({0, p, sizeof(T) * N}); packed_t r; for (int i = 0; i < N; i++) r[i] = p[i]; return r; }
        static auto storeu(T* p, packed_t v) noexcept { vtrace::log().push_back({1, p, sizeof(T) * N}); for (int i = 0; i < N; i++) p[i] = v[i]; }
        template <class X> static auto set1(X x) noexcept { packed_t r; r.fill((T)x); return r; }
        #define VT_UN(name, expr) static auto name(packed_t a) noexcept { packed_t r; for (int i = 0; i < N; i++) { T x = a[i]; r[i] = (expr); } return r; }
        #define VT_BIN(name, expr) static auto name(packed_t a, packed_t b) noexcept { packed_t r; for (int i = 0; i < N; i++) { T x = a[i], y = b[i]; r[i] = (expr); } return r; }
        VT_UN(sqrt, std::sqrt(x)) VT_UN(ceil, std::ceil(x)) VT_UN(floor, std::floor(x))
        VT_BIN(add, x + y) VT_BIN(sub, x - y) VT_BIN(mul, x * y) VT_BIN(div, x / y) VT_BIN(max, x > y ? x : y) VT_BIN(min, x < y ? x : y)
        VT_BIN(cmpge, (T)(x >= y)) VT_BIN(cmple, (T)(x <= y)) VT_BIN(cmpgt, (T)(x > y)) VT_BIN(cmplt, (T)(x < y))
        VT_BIN(logical_and, (T)((x != 0) && (y != 0))) VT_BIN(logical_or, (T)((x != 0) || (y != 0)))
        static auto blendv(packed_t a, packed_t b, packed_t m) noexcept { packed_t r; for (int i = 0; i < N; i++) r[i] = (m[i] != 0) ? b[i] : a[i]; return r; }
        static auto fmadd(packed_t a, packed_t b, packed_t c) noexcept { packed_t r; for (int i = 0; i < N; i++) r[i] = a[i] * b[i] + c[i]; return r; }
        #undef VT_UN
        #undef VT_BIN
    };
}
