// Minimal JSON value, parser and writer for the verification drivers (integers, doubles, bools, strings, arrays, objects).
#pragma once
#include <cstdint>
#include <cstdio>
#include <cstdlib>
#include <cstring>
#include <map>
#include <memory>
#include <string>
#include <vector>
#include <stdexcept>
#include <sstream>

namespace vj {

struct value;
using array_t  = std::vector<value>;
using object_t = std::vector<std::pair<std::string,value>>;

struct value {
    enum kind_t { Null, Bool, Int, Dbl, Str, Arr, Obj } kind = Null;
    bool b = false; long long i = 0; double d = 0; std::string s;
    std::shared_ptr<array_t> a; std::shared_ptr<object_t> o;

    value() {}
    value(bool v) : kind(Bool), b(v) {}
    value(int v) : kind(Int), i(v) {}
    value(long v) : kind(Int), i(v) {}
    value(long long v) : kind(Int), i(v) {}
    value(unsigned long v) : kind(Int), i((long long)v) {}
    value(unsigned v) : kind(Int), i((long long)v) {}
    value(double v) : kind(Dbl), d(v) {}
    value(const char* v) : kind(Str), s(v) {}
    value(const std::string& v) : kind(Str), s(v) {}
    template <class T> value(const std::vector<T>& v) : kind(Arr), a(std::make_shared<array_t>()) { for (auto& x : v) a->push_back(value(x)); }
    static value array() { value v; v.kind = Arr; v.a = std::make_shared<array_t>(); return v; }
    static value object() { value v; v.kind = Obj; v.o = std::make_shared<object_t>(); return v; }

    bool is_null() const { return kind == Null; }
    bool is_arr() const { return kind == Arr; }
    bool is_obj() const { return kind == Obj; }
    bool is_int() const { return kind == Int; }
    bool is_str() const { return kind == Str; }
    size_t size() const { return kind == Arr ? a->size() : kind == Obj ? o->size() : 0; }
    const value& operator[](size_t k) const { return (*a)[k]; }
    const value& operator[](int k) const { return (*a)[(size_t)k]; }
    bool has(const std::string& k) const { if (kind != Obj) return false; for (auto& p : *o) if (p.first == k) return true; return false; }
    const value& operator[](const std::string& k) const {
        static value nullv;
        if (kind != Obj) return nullv;
        for (auto& p : *o) if (p.first == k) return p.second;
        return nullv;
    }
    const value& operator[](const char* k) const { return (*this)[std::string(k)]; }
    value& set(const std::string& k, const value& v) {
        if (kind != Obj) { kind = Obj; o = std::make_shared<object_t>(); }
        for (auto& p : *o) if (p.first == k) { p.second = v; return *this; }
        o->push_back({k, v}); return *this;
    }
    value& push(const value& v) { if (kind != Arr) { kind = Arr; a = std::make_shared<array_t>(); } a->push_back(v); return *this; }
    long long as_int() const { return kind == Int ? i : kind == Dbl ? (long long)d : kind == Bool ? b : 0; }
    double as_dbl() const { return kind == Dbl ? d : (double)as_int(); }
    bool as_bool() const { return kind == Bool ? b : as_int() != 0; }
    const std::string& as_str() const { return s; }
    template <class T = long> std::vector<T> as_vec() const { std::vector<T> r; if (kind == Arr) for (auto& x : *a) r.push_back((T)x.as_int()); return r; }
    std::vector<double> as_dvec() const { std::vector<double> r; if (kind == Arr) for (auto& x : *a) r.push_back(x.as_dbl()); return r; }

    void dump(std::string& out) const {
        switch (kind) {
        case Null: out += "null"; break;
        case Bool: out += b ? "true" : "false"; break;
        case Int: out += std::to_string(i); break;
        case Dbl: { char buf[64]; snprintf(buf, sizeof buf, "%.17g", d); out += buf; if (!strpbrk(buf, ".eEn")) out += ".0"; break; }
        case Str: out += '"'; for (char c : s) { if (c == '"' || c == '\\') { out += '\\'; out += c; } else if (c == '\n') out += "\\n"; else out += c; } out += '"'; break;
        case Arr: out += '['; for (size_t k = 0; k < a->size(); k++) { if (k) out += ','; (*a)[k].dump(out); } out += ']'; break;
        case Obj: out += '{'; for (size_t k = 0; k < o->size(); k++) { if (k) out += ','; out += '"'; out += (*o)[k].first; out += "\":"; (*o)[k].second.dump(out); } out += '}'; break;
        }
    }
    std::string dump() const { std::string r; dump(r); return r; }
};

struct parser {
    const char* p; const char* e;
    void ws() { while (p < e && (*p == ' ' || *p == '\t' || *p == '\n' || *p == '\r')) p++; }
    [[noreturn]] void fail(const char* m) { throw std::runtime_error(std::string("json: ") + m); }
    value parse() {
        ws(); if (p >= e) fail("eof");
        char c = *p;
        if (c == '{') { p++; value v = value::object(); ws(); if (*p == '}') { p++; return v; }
            for (;;) { ws(); if (*p != '"') fail("key"); std::string k = str(); ws(); if (*p != ':') fail(":"); p++; value x = parse(); v.o->push_back({k, x}); ws(); if (*p == ',') { p++; continue; } if (*p == '}') { p++; break; } fail("obj"); }
            return v; }
        if (c == '[') { p++; value v = value::array(); ws(); if (*p == ']') { p++; return v; }
            for (;;) { v.a->push_back(parse()); ws(); if (*p == ',') { p++; continue; } if (*p == ']') { p++; break; } fail("arr"); }
            return v; }
        if (c == '"') return value(str());
        if (!strncmp(p, "true", 4)) { p += 4; return value(true); }
        if (!strncmp(p, "false", 5)) { p += 5; return value(false); }
        if (!strncmp(p, "null", 4)) { p += 4; return value(); }
        const char* q = p; bool dbl = false;
        if (*q == '-' || *q == '+') q++;
        while (q < e && (isdigit((unsigned char)*q) || *q == '.' || *q == 'e' || *q == 'E' || *q == '-' || *q == '+')) { if (*q == '.' || *q == 'e' || *q == 'E') dbl = true; q++; }
        if (q == p) fail("value");
        std::string t(p, q); p = q;
        if (dbl) return value(strtod(t.c_str(), nullptr));
        return value((long long)strtoll(t.c_str(), nullptr, 10));
    }
    std::string str() { std::string r; p++; while (p < e && *p != '"') { if (*p == '\\') { p++; if (*p == 'n') r += '\n'; else r += *p; p++; } else r += *p++; } if (p >= e) fail("str"); p++; return r; }
};
inline value parse(const std::string& s) { parser ps{s.data(), s.data() + s.size()}; return ps.parse(); }

} // namespace vj
