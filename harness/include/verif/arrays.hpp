// Helpers shared by the drivers: dynamic operands with injective integer data and projection of any nmtools
// array / view / maybe onto {ok, crash, shape, elems}.
#pragma once
#include "verif/json.hpp"
#include "nmtools/array/ndarray.hpp"
#include "nmtools/array/index/ndindex.hpp"
#include "nmtools/array/index/product.hpp"
#include "nmtools/utility/at.hpp"
#include "nmtools/utility/shape.hpp"
#include <vector>
#include <array>

namespace verif {
namespace nm = nmtools;
namespace na = nmtools::array;
namespace meta = nmtools::meta;

template <class T = long>
using dyn_t = na::ndarray_t<std::vector<T>, std::vector<size_t>>;

// element at flat (C-order) position p of leaf j is 1000*j + p + 1
template <class T = long>
inline dyn_t<T> make_leaf(const std::vector<long>& shape, long j) {
    dyn_t<T> a;
    std::vector<size_t> s(shape.begin(), shape.end());
    a.resize(s);
    size_t n = 1; for (auto x : s) n *= x;
    for (size_t p = 0; p < n; p++) a.data()[p] = (T)(1000 * j + (long)p + 1);
    return a;
}
template <class T = long>
inline dyn_t<T> make_data(const std::vector<long>& shape, const std::vector<T>& data) {
    dyn_t<T> a;
    std::vector<size_t> s(shape.begin(), shape.end());
    a.resize(s);
    for (size_t p = 0; p < data.size(); p++) a.data()[p] = data[p];
    return a;
}

inline vj::value nothing_res() {
    vj::value r = vj::value::object();
    r.set("ok", false).set("crash", "").set("shape", vj::value::array()).set("elems", vj::value::array());
    return r;
}

template <class S>
inline std::vector<long> shape_vec(const S& s) {
    std::vector<long> r;
    if constexpr (meta::is_constant_index_array_v<S>) {
        constexpr auto v = meta::to_value_v<S>;
        for (size_t i = 0; i < (size_t)nm::len(v); i++) r.push_back((long)nm::at(v, i));
    } else if constexpr (meta::is_tuple_v<S>) {
        constexpr auto N = meta::len_v<S>;
        meta::template_for<N>([&](auto I) { r.push_back((long)nm::at(s, I)); });
    } else {
        for (size_t i = 0; i < (size_t)nm::len(s); i++) r.push_back((long)nm::at(s, i));
    }
    return r;
}

template <class E>
inline vj::value elem_value(const E& x) {
    if constexpr (!std::is_arithmetic_v<E>) {
        // an element may itself be a (zero-dimensional) view object: read it through its element type
        using T = meta::get_element_type_t<E>;
        return elem_value(static_cast<T>(x));
    } else
    if constexpr (std::is_floating_point_v<E>) {
        // integral values travel as integers (exact for the specification); anything else as an opaque token
        double d = (double)x;
        if (d == (double)(long long)d && d > -1e9 && d < 1e9) return vj::value((long long)d);
        char buf[64]; snprintf(buf, sizeof buf, "f:%.9g", d); return vj::value(std::string(buf));
    }
    else if constexpr (std::is_same_v<E, bool>) return vj::value((long)(x ? 1 : 0));
    else return vj::value((long long)x);
}

// numeric value of a projected element (integers travel as integers, other reals as "f:<value>" tokens)
inline double elem_to_double(const vj::value& e) { return e.is_str() ? strtod(e.as_str().c_str() + 2, nullptr) : e.as_dbl(); }

// projection of an array-like / view / num / maybe<...>
template <class V>
inline vj::value project(const V& v) {
    if constexpr (meta::is_maybe_v<V>) {
        if (!static_cast<bool>(v)) { auto r = nothing_res(); r.set("maybe", true); return r; }
        auto r = project(*v); r.set("maybe", true); return r;
    } else if constexpr (meta::is_num_v<V>) {
        vj::value r = vj::value::object();
        vj::value el = vj::value::array(); el.push(elem_value(static_cast<meta::get_element_type_t<V>>(v)));
        r.set("ok", true).set("crash", "").set("shape", vj::value::array()).set("elems", el);
        return r;
    } else {
        auto shp = shape_vec(nm::shape(v));
        std::vector<size_t> s(shp.begin(), shp.end());
        size_t n = 1; for (auto x : s) n *= x;
        vj::value el = vj::value::array();
        [[maybe_unused]] constexpr auto FIXED_DIM = meta::fixed_dim_v<V>;
        if constexpr (!meta::is_fail_v<decltype(FIXED_DIM)>) {
            // the dimension is part of the type: index with a fixed-size index (some views over fixed arrays accept nothing else)
            constexpr size_t DIM = (size_t)FIXED_DIM;
            for (size_t i = 0; i < n; i++) {
                std::array<size_t, DIM> idx{}; size_t k = i;
                for (size_t q = DIM; q-- > 0;) { idx[q] = k % s[q]; k /= s[q]; }
                el.push(elem_value(nm::apply_at(v, idx)));
            }
        } else if (s.size() == 0) {
            // zero-dimensional array-like
            el.push(elem_value(nm::apply_at(v, std::vector<size_t>{})));
        } else {
            auto nd = nm::index::ndindex(s);
            for (size_t i = 0; i < n; i++) {
                auto idx = nd[i];
                el.push(elem_value(nm::apply_at(v, idx)));
            }
        }
        vj::value r = vj::value::object();
        r.set("ok", true).set("crash", "").set("shape", vj::value(shp)).set("elems", el);
        // the element count the object itself reports (TraceOps: it is the product of the shape)
        r.set("size", (long)nm::size(v));
        return r;
    }
}

inline vj::value vec_res(bool ok, const std::vector<long>& val) {
    vj::value r = vj::value::object();
    r.set("ok", ok).set("crash", "").set("val", vj::value(val));
    return r;
}
template <class S>
inline vj::value project_index(const S& s) {
    if constexpr (meta::is_maybe_v<S>) {
        if (!static_cast<bool>(s)) return vec_res(false, {});
        return project_index(*s);
    } else if constexpr (meta::is_num_v<S> || meta::is_constant_index_v<S>) {
        return vec_res(true, {(long)s});
    } else return vec_res(true, shape_vec(s));
}

} // namespace verif
