// Driver skeleton: reads case lines (JSON), executes each on the real library in a forked child, writes event lines
// (case + "res"). A child that dies (signal, abort, uncaught exception, timeout) yields a crash event for the case it was
// executing and the remaining cases continue in a fresh child.
#pragma once
#include "verif/json.hpp"
#include <fstream>
#include <iostream>
#include <functional>
#include <csignal>
#include <unistd.h>
#include <sys/mman.h>
#include <sys/wait.h>
#include <time.h>

namespace verif {

inline vj::value crash_res(const std::string& what) {
    vj::value r = vj::value::object();
    r.set("ok", false).set("crash", what).set("shape", vj::value::array()).set("elems", vj::value::array());
    return r;
}

using handler_t = std::function<vj::value(const vj::value&)>;

inline int run_driver(int argc, char** argv, handler_t handler) {
    if (argc < 3) { fprintf(stderr, "usage: %s <cases.ndjson> <events.ndjson> [timeout_s]\n", argv[0]); return 2; }
    std::vector<std::string> lines;
    { std::ifstream in(argv[1]); std::string l; while (std::getline(in, l)) if (!l.empty()) lines.push_back(l); }
    int case_timeout = argc > 3 ? atoi(argv[3]) : 20;
    volatile long* cur = (volatile long*)mmap(nullptr, 4096, PROT_READ | PROT_WRITE, MAP_SHARED | MAP_ANONYMOUS, -1, 0);
    cur[0] = -1; // index of the case being executed
    cur[1] = 0;  // number of completed cases
    FILE* out = fopen(argv[2], "w");
    if (!out) { perror("open out"); return 2; }
    fclose(out);
    size_t start = 0; long crashes = 0;
    while (start < lines.size()) {
        pid_t pid = fork();
        if (pid == 0) {
            FILE* o = fopen(argv[2], "a");
            std::set_terminate([]() { _exit(86); });
            for (size_t k = start; k < lines.size(); k++) {
                cur[0] = (long)k;
                vj::value c = vj::parse(lines[k]);
                vj::value r;
                try { r = handler(c); }
                catch (const std::exception& ex) { r = crash_res(std::string("exception:") + ex.what()); }
                catch (...) { r = crash_res("exception:unknown"); }
                std::string s;
                if (r.has("__events")) { for (size_t q = 0; q < r["__events"].size(); q++) { s += r["__events"][q].dump(); s += '\n'; } }
                else { if (r.has("crash") && r["crash"].as_str() != "") c.set("e", "crash"); c.set("res", r); s = c.dump(); s += '\n'; }
                fwrite(s.data(), 1, s.size(), o); fflush(o);
                cur[1] = (long)k + 1;
            }
            fclose(o);
            _exit(0);
        }
        int status = 0; long last = -2; time_t last_change = time(nullptr); bool killed = false;
        for (;;) {
            pid_t w = waitpid(pid, &status, WNOHANG);
            if (w == pid) break;
            if (cur[1] != last) { last = cur[1]; last_change = time(nullptr); }
            else if (time(nullptr) - last_change > case_timeout) { kill(pid, SIGKILL); killed = true; waitpid(pid, &status, 0); break; }
            usleep(20000);
        }
        if (!killed && WIFEXITED(status) && WEXITSTATUS(status) == 0) break;
        // child died while executing case cur[0]
        long k = cur[0];
        if (k < (long)start) k = (long)start;
        if (cur[1] > k) { start = (size_t)cur[1]; continue; } // died after finishing everything it started
        std::string what = killed ? "timeout" : WIFSIGNALED(status) ? ("signal:" + std::to_string(WTERMSIG(status))) : ("exit:" + std::to_string(WEXITSTATUS(status)));
        vj::value c = vj::parse(lines[(size_t)k]);
        c.set("e", "crash"); c.set("res", crash_res(what));
        FILE* o = fopen(argv[2], "a"); std::string s = c.dump(); s += '\n'; fwrite(s.data(), 1, s.size(), o); fclose(o);
        crashes++;
        start = (size_t)k + 1;
    }
    fprintf(stderr, "driver: %zu cases, %ld crash events\n", lines.size(), crashes);
    return 0;
}

} // namespace verif
