// Program machinery shared by the program-based drivers (C10, C13, C14): run-time chosen chains of views whose composed
// type is built by the compiler through continuation-passing dispatch.
#pragma once
#include "verif/driver.hpp"
#include "verif/arrays.hpp"
#include "nmtools/array/eval.hpp"
#include "nmtools/array/view/transpose.hpp"
#include "nmtools/array/view/flip.hpp"
#include "nmtools/array/view/reshape.hpp"
#include "nmtools/array/view/tile.hpp"
#include "nmtools/array/view/roll.hpp"
#include "nmtools/array/view/expand_dims.hpp"
#include "nmtools/array/view/pad.hpp"
#include "nmtools/array/view/ufunc.hpp"

#ifndef MAXD
#define MAXD 3
#endif

using namespace verif;
namespace view = nmtools::view;

struct mix_t { template <class T, class U> constexpr auto operator()(const T& a, const U& b) const { return (long)((((31 * (long)a + 17 * (long)b + 7) % 10007) + 10007) % 10007); } };

struct step_t { std::string op; std::vector<int> iv; std::vector<size_t> uv; int a = 0, b = 0; dyn_t<long> leaf; };

static step_t parse_step(const vj::value& s, long leaf_id) {
    step_t r; r.op = s["op"].as_str(); const auto& g = s["args"];
    if (r.op == "transpose") { if (g["axes"].size()) r.iv = g["axes"][0].as_vec<int>(); else r.a = -99; }
    else if (r.op == "flip") r.a = (int)g["axis"][0][0].as_int();
    else if (r.op == "reshape") r.iv = g["dst"].as_vec<int>();
    else if (r.op == "tile") r.uv = g["reps"].as_vec<size_t>();
    else if (r.op == "roll") { r.a = (int)g["shift"][0].as_int(); r.b = (int)g["axis"][0][0].as_int(); }
    else if (r.op == "expand_dims") r.a = (int)g["axis"][0].as_int();
    else if (r.op == "pad") r.uv = g["widths"].as_vec<size_t>();
    else if (r.op == "reduce_mix") r.a = (int)g["axis"][0][0].as_int();
    else if (r.op == "mix") r.leaf = make_leaf<long>(s["shapes"][1].as_vec<long>(), 1);   // second operand of a step is always "operand 1" of that step
    return r;
}

// Which operations are compiled at which level (position in the program).  -DFIRST_IDX=k restricts level 0 to one
// operation so that the alphabet^depth instantiations can be spread over parallel compilations; levels >= 2 use the
// first SMALL operations only.
#ifndef SMALL
#define SMALL 6
#endif
#ifndef NOPS
#define NOPS 9
#endif
template <int Level> constexpr bool on(int idx) {
    if (idx >= NOPS) return false;
#ifdef FIRST_IDX
    if (Level == 0) return idx == FIRST_IDX;
#endif
    if (Level >= 2) return idx < SMALL;
    return true;
}

// apply one step to v (an array or a view, never a maybe) and pass the resulting view on
template <int Level, class V, class K> static vj::value apply_step(const step_t& s, const V& v, K&& k) {
    auto cont = [&](const auto& r) -> vj::value {
        using R = meta::remove_cvref_t<decltype(r)>;
        if constexpr (meta::is_maybe_v<R>) { if (!static_cast<bool>(r)) { auto n = nothing_res(); n.set("maybe", true); return n; } return k(*r); }
        else return k(r);
    };
    if constexpr (on<Level>(0)) if (s.op == "transpose") { if (s.a == -99) return cont(view::transpose(v, nm::None)); return cont(view::transpose(v, s.iv)); }
    if constexpr (on<Level>(1)) if (s.op == "flip") return cont(view::flip(v, s.a));
    if constexpr (on<Level>(2)) if (s.op == "reshape") return cont(view::reshape(v, s.iv));
    if constexpr (on<Level>(3)) if (s.op == "tile") return cont(view::tile(v, s.uv));
    if constexpr (on<Level>(4)) if (s.op == "reduce_mix") return cont(view::reduce(mix_t{}, v, s.a, nm::None, nm::None, nm::False));
    if constexpr (on<Level>(5)) if (s.op == "mix") return cont(view::broadcast_binary_ufunc(mix_t{}, v, s.leaf));
    if constexpr (on<Level>(6)) if (s.op == "roll") return cont(view::roll(v, s.a, s.b));
    if constexpr (on<Level>(7)) if (s.op == "expand_dims") return cont(view::expand_dims(v, s.a));
    if constexpr (on<Level>(8)) if (s.op == "pad") return cont(view::pad(v, s.uv, (long)-7));
    return crash_res("driver:operation not compiled at this position: " + s.op);
}

template <int Level, class V, class K> static vj::value chain(const std::vector<step_t>& st, size_t i, size_t n, const V& v, K&& k) {
    if (i == n) return k(v);
    if constexpr (Level >= MAXD) return crash_res("driver:program deeper than the compiled depth");
    else return apply_step<Level>(st[i], v, [&](const auto& r) { return chain<Level + 1>(st, i + 1, n, r, k); });
}

