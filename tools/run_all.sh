#!/bin/bash
# usage: tools/run_all.sh [tier] [seed]  -- runs every claimed check, prints one verdict line per property
cd "$(dirname "$0")/.."
TIER=${1:-quick}; SEED=${2:-0}
for id in $(python3 -c "import json;print(' '.join(c['property_id'] for c in json.load(open('MANIFEST.json'))['checks']))"); do
  s=$(date +%s)
  out=$(VERIF_SEED=$SEED ./verif check $id --tier $TIER 2>&1); rc=$?
  e=$(( $(date +%s) - s ))
  nv=$(echo "$out" | grep -c "^VIOLATION"); nk=$(echo "$out" | grep -c "^KNOWN-FINDING")
  echo "$id rc=$rc violations=$nv known=$nk ${e}s $(echo "$out" | grep -m1 "^INCONCLUSIVE" | cut -c1-200)"
done
