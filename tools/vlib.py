"""Shared machinery of the /verif checks: TLC runs, driver builds, trace validation, classification, evidence."""
import hashlib, json, os, re, shutil, subprocess, sys, time, random, glob
from concurrent.futures import ThreadPoolExecutor

ROOT = os.path.dirname(os.path.dirname(os.path.abspath(__file__)))
REPO = os.environ.get("VERIF_REPO", "/repo")
BUILD = os.path.join(ROOT, "build")
GEN = os.path.join(ROOT, "generated")
SPEC = os.path.join(ROOT, "spec")
# a run against another tree (VERIF_REPO=<scratch copy>, used by the mutation self-test) must not overwrite the evidence,
# replay files and work directories of the registered checks, which always run against /repo
ALT = os.environ.get("VERIF_REPO", "/repo") != "/repo"
EVID = os.path.join(BUILD, "alt", "evidence") if ALT else os.path.join(ROOT, "evidence")
REPLAYS = os.path.join(BUILD, "alt", "replays") if ALT else os.path.join(ROOT, "replays")
TLA_CP = "/opt/veriftools/tla/tla2tools.jar:/opt/veriftools/tla/CommunityModules-deps.jar"
NCPU = int(os.environ.get("VERIF_JOBS", "16"))

for d in (BUILD, GEN, EVID, REPLAYS):
    os.makedirs(d, exist_ok=True)


def log(*a):
    print(*a, file=sys.stderr, flush=True)


class Inconclusive(Exception):
    pass


# ------------------------------------------------------------------ hashing / caching
def _hash_files(paths, extra=""):
    h = hashlib.sha256()
    h.update(extra.encode())
    for p in sorted(paths):
        h.update(p.encode())
        try:
            with open(p, "rb") as f:
                h.update(f.read())
        except OSError:
            h.update(b"<missing>")
    return h.hexdigest()


_repo_hash = None


def repo_hash():
    """Hash of every header of the repository's working tree (drivers are rebuilt whenever it changes)."""
    global _repo_hash
    if _repo_hash is None:
        files = []
        for dp, dn, fn in os.walk(os.path.join(REPO, "include")):
            for f in fn:
                files.append(os.path.join(dp, f))
        _repo_hash = _hash_files(files)
    return _repo_hash


def spec_hash(module=None, cfg=None):
    """Hash of a module, the modules it (transitively) EXTENDS/INSTANCEs inside spec/, and its config."""
    if module is None:
        files = glob.glob(os.path.join(SPEC, "*.tla")) + glob.glob(os.path.join(SPEC, "*.cfg"))
        return _hash_files(files)
    seen, todo = set(), [module]
    while todo:
        m = todo.pop()
        p = os.path.join(SPEC, m + ".tla")
        if m in seen or not os.path.exists(p):
            continue
        seen.add(m)
        txt = open(p).read()
        for line in re.findall(r"EXTENDS([^\n]*)", txt):
            todo += [x.strip() for x in line.split(",")]
        todo += re.findall(r"INSTANCE\s+(\w+)", txt)
    files = [os.path.join(SPEC, m + ".tla") for m in seen]
    if cfg:
        files.append(os.path.join(SPEC, cfg + ".cfg"))
    return _hash_files(files)


# ------------------------------------------------------------------ drivers
HARNESS_INC = os.path.join(ROOT, "harness", "include")


def build_driver(name, flags=(), src=None, compiler="g++", tag=""):
    """Compile harness/drivers/<name>.cpp against /repo's current working tree; cached on (tree, source, flags)."""
    src = src or os.path.join(ROOT, "harness", "drivers", name + ".cpp")
    hdrs = glob.glob(os.path.join(HARNESS_INC, "verif", "*.hpp"))
    key = _hash_files([src] + hdrs, repo_hash() + " ".join(flags) + compiler)[:16]
    out = os.path.join(BUILD, f"{name}{tag}-{key}")
    if os.path.exists(out):
        return out
    for old in glob.glob(os.path.join(BUILD, f"{name}{tag}-*")):
        try:
            os.remove(old)
        except OSError:
            pass
    cmd = [compiler, "-std=c++17", "-O1", "-w", "-DNMTOOLS_VERIF", f"-I{REPO}/include", f"-I{HARNESS_INC}", *flags, src, "-o", out + ".tmp"]
    t = time.time()
    r = subprocess.run(cmd, capture_output=True, text=True)
    if r.returncode != 0:
        errs = [l for l in r.stderr.splitlines() if "error" in l][:12]
        raise Inconclusive(f"driver {name} does not compile against the current tree: " + " | ".join(errs)[:1500])
    os.replace(out + ".tmp", out)
    log(f"[build] {name}{tag} {time.time()-t:.1f}s")
    return out


def build_drivers(specs):
    """specs: list of dict(name=..., flags=..., tag=...) built in parallel; returns list of paths."""
    with ThreadPoolExecutor(max_workers=NCPU) as ex:
        futs = [ex.submit(build_driver, **s) for s in specs]
        return [f.result() for f in futs]


def run_driver(binary, cases, workdir, label, timeout=1800, nproc=None, case_timeout=20):
    """Split cases into chunks, run one driver process per chunk in parallel; returns list of event files."""
    nproc = nproc or NCPU
    os.makedirs(workdir, exist_ok=True)
    chunks = split_chunks(cases, nproc)
    files = []
    procs = []
    for i, ch in enumerate(chunks):
        cf = os.path.join(workdir, f"{label}.cases.{i}.ndjson")
        ef = os.path.join(workdir, f"{label}.events.{i}.ndjson")
        with open(cf, "w") as f:
            for c in ch:
                f.write(json.dumps(c, separators=(",", ":")) + "\n")
        procs.append((subprocess.Popen([binary, cf, ef, str(case_timeout)], stderr=subprocess.PIPE, text=True), ef))
    for p, ef in procs:
        try:
            _, err = p.communicate(timeout=timeout)
        except subprocess.TimeoutExpired:
            p.kill()
            raise Inconclusive(f"driver {binary} timed out")
        if p.returncode != 0:
            raise Inconclusive(f"driver {binary} failed: {err[-500:]}")
        files.append(ef)
    return files


def split_chunks(items, n):
    items = list(items)
    if not items:
        return []
    n = max(1, min(n, len(items)))
    size = (len(items) + n - 1) // n
    return [items[i:i + size] for i in range(0, len(items), size)]


# ------------------------------------------------------------------ TLC
def _java(heap="4g", gc="Serial"):
    return ["java", f"-XX:+Use{gc}GC", f"-Xmx{heap}", "-Xss16m", "-cp", TLA_CP, "tlc2.TLC"]


_RE_STATES = re.compile(r"(\d+) states generated, (\d+) distinct states found")


def tlc(module, cfg=None, workers=1, env=None, timeout=1500, extra=(), heap="4g", label=None, gc="Serial"):
    """Run TLC on spec/<module>.tla; returns dict(ok, generated, distinct, out, violated)."""
    label = label or module
    md = os.path.join(BUILD, "md", f"{label}-{os.getpid()}-{int(time.time()*1000)%100000000}")
    shutil.rmtree(md, ignore_errors=True)
    os.makedirs(md, exist_ok=True)
    cfgp = os.path.join(SPEC, (cfg or module) + ".cfg")
    cmd = ["timeout", str(timeout)] + _java(heap, gc) + ["-workers", str(workers), "-metadir", md, "-config", cfgp, "-noGenerateSpecTE", *extra, os.path.join(SPEC, module + ".tla")]
    e = dict(os.environ)
    e.update(env or {})
    t = time.time()
    r = subprocess.run(cmd, capture_output=True, text=True, env=e, cwd=md)
    shutil.rmtree(md, ignore_errors=True)
    out = r.stdout + r.stderr
    m = _RE_STATES.findall(out)
    gen, dist = (int(m[-1][0]), int(m[-1][1])) if m else (0, 0)
    violated = re.findall(r"Invariant (\S+) is violated|Action property (\S+) is violated|Temporal properties were violated|Assumption .* is false|Error: (.*)", out)
    ok = r.returncode == 0 and "No error has been found" in out
    return dict(ok=ok, rc=r.returncode, generated=gen, distinct=dist, out=out, violated=violated, wall=time.time() - t, module=module, cfg=cfg or module)


def tlc_model_check(module, cfg=None, workers=None, **kw):
    """Model check a specification module; raises Inconclusive on infrastructure failure, returns stats.
    A violated invariant of the *specification* is a design-level error of the model and reported as inconclusive
    (the model is ours; the property is decided on the implementation by the conformance step)."""
    r = tlc(module, cfg, workers=workers or NCPU, **kw)
    if not r["ok"]:
        tail = "\n".join(r["out"].splitlines()[-40:])
        raise Inconclusive(f"TLC model check of {module}/{cfg or module} failed (rc={r['rc']}):\n{tail}")
    log(f"[tlc] {module}/{cfg or module}: {r['generated']} states generated, {r['distinct']} distinct, {r['wall']:.1f}s")
    return r


def tlc_generate(module, cfg, outfile_env="OUT", key_extra="", **kw):
    """Run a generator module (writes an ndjson table to IOEnv.OUT); cached in generated/ keyed by the spec hash."""
    key = hashlib.sha256((spec_hash(module, cfg or module) + module + (cfg or "") + key_extra).encode()).hexdigest()[:16]
    path = os.path.join(GEN, f"{module}.{cfg or module}.{key_extra}.{key}.ndjson")
    if not os.path.exists(path):
        for old in glob.glob(os.path.join(GEN, f"{module}.{cfg or module}.{key_extra}.*.ndjson")):
            os.remove(old)
        env = dict(kw.pop("env", {}) or {})
        env[outfile_env] = path + ".tmp"
        r = tlc(module, cfg, workers=1, env=env, **kw)
        if not os.path.exists(path + ".tmp"):
            tail = "\n".join(r["out"].splitlines()[-40:])
            raise Inconclusive(f"generator {module}/{cfg} produced no table:\n{tail}")
        os.replace(path + ".tmp", path)
        log(f"[gen] {module}/{cfg}: {sum(1 for _ in open(path))} cases, {r['wall']:.1f}s")
    with open(path) as f:
        return [json.loads(l) for l in f if l.strip()]


NONINTEGRAL = 987654321      # stands for a non-integral real where the specification computes integers (see validate_traces)


def validate_traces(module, event_files, cfg=None, timeout=1500, heap="3g", env=None):
    """Validate each event file against the trace specification (one TLC per file, in parallel).
    Returns (mismatches, stats) where each mismatch is dict(event=<event>, expect=..., why=..., file=..., l=...)."""
    # bisection is sound only for trace specifications whose events are independent of each other (one state per event)
    multi_event_ok = module in ("TraceOps", "TraceStatic", "TraceSimd")

    def one(ef, depth=0):
        n = sum(1 for _ in open(ef))
        if n == 0:
            return ef, [], dict(generated=0, distinct=0, events=0)
        # A non-integral real travels as the token "f:<value>".  No reference operator produces such a token, so it can only
        # mismatch; TLC however refuses to compare a string with an integer (evaluation error, the whole file would be
        # inconclusive).  Such elements are therefore handed to TLC as a sentinel integer no operator computes; the mismatch
        # record still shows the original event.
        raw = open(ef).read()
        if '"f:' in raw:
            def clean(x):
                if isinstance(x, str) and x.startswith("f:"): return NONINTEGRAL
                if isinstance(x, list): return [clean(v) for v in x]
                if isinstance(x, dict): return {k: (clean(v) if k in ("elems", "eval_elems", "res", "obs", "proj") else v) for k, v in x.items()}
                return x
            ef_tlc = ef + ".tlc"
            with open(ef_tlc, "w") as f:
                for l in raw.splitlines():
                    if l.strip(): f.write(json.dumps(clean(json.loads(l)), separators=(",", ":")) + "\n")
        else:
            ef_tlc = ef
        bad = ef + ".bad"
        if os.path.exists(bad):
            os.remove(bad)
        e = {"TRACE": ef_tlc, "OUT": bad}
        e.update(env or {})
        r = tlc(module, cfg, workers=1, env=e, timeout=timeout, heap=heap, label=os.path.basename(ef))
        if not r["ok"] or not os.path.exists(bad):
            tail = "\n".join(r["out"].splitlines()[-60:])
            # An observation the specification cannot even evaluate (an ill-typed value: a string where numbers are compared, a
            # missing field) is not a behaviour of the specification: isolate the offending event by bisection and report it as a
            # mismatch.  Anything else (time-out, memory, a parse error of the specification) stays inconclusive.
            # (an arithmetic overflow is NOT taken as evidence against the code: it can come from the reference computation on
            # legitimate values and stays inconclusive)
            evaluation_error = "Overflow" not in r["out"] and any(k in r["out"] for k in ("Attempted to compare", "Attempted to check equality", "nonexistent field"))
            lines = [l for l in open(ef_tlc) if l.strip()]
            if evaluation_error and depth < 14 and len(lines) >= 1 and multi_event_ok:
                if len(lines) == 1:
                    ev = json.loads(open(ef).readline())
                    return ef, [dict(l=1, id=ev.get("id"), why="the specification cannot evaluate this observation (ill-typed or overflowing value): not a behaviour of the specification",
                                     expect=dict(ok=True, note="see TLC error"), event=ev, file=ef)], dict(generated=1, distinct=1, events=1)
                orig = [l for l in open(ef) if l.strip()]
                mid = len(lines) // 2
                out = []; st = dict(generated=0, distinct=0, events=0)
                for part, (a, b) in enumerate(((0, mid), (mid, len(lines)))):
                    pf = f"{ef}.p{depth}_{part}"
                    with open(pf, "w") as f: f.writelines(orig[a:b])
                    _, res_p, st_p = one(pf, depth + 1)
                    for m in res_p: m["file"] = ef
                    out.extend(res_p)
                    for k in st: st[k] += st_p[k]
                return ef, out, st
            raise Inconclusive(f"trace validation {module} on {ef} did not complete (rc={r['rc']}):\n{tail}")
        evs = [json.loads(l) for l in open(ef) if l.strip()]
        res = []
        for l in open(bad):
            if l.strip():
                b = json.loads(l)
                b["event"] = evs[b["l"] - 1]
                b["file"] = ef
                res.append(b)
        return ef, res, dict(generated=r["generated"], distinct=r["distinct"], events=n)

    with ThreadPoolExecutor(max_workers=NCPU) as ex:
        results = list(ex.map(one, event_files))
    mism = []
    stats = dict(generated=0, distinct=0, events=0)
    for ef, res, st in results:
        mism.extend(res)
        for k in stats:
            stats[k] += st[k]
    return mism, stats


# ------------------------------------------------------------------ known findings
def load_known(prop):
    p = os.path.join(ROOT, "known_findings.json")
    if not os.path.exists(p):
        return []
    with open(p) as f:
        kf = json.load(f)
    out = []
    for e in kf.get("findings", []):
        if e.get("property") == prop and e.get("state") == "open":
            if "keys_file" in e:
                with open(os.path.join(ROOT, e["keys_file"])) as f:
                    e = dict(e, keys=set(json.load(f)))
            elif "keys" in e:
                e = dict(e, keys=set(e["keys"]))
            out.append(e)
    return out


def canon(x):
    return json.dumps(x, sort_keys=True, separators=(",", ":"))


# ------------------------------------------------------------------ check context
class Check:
    def __init__(self, prop, tier, seed, level="model_checking"):
        self.prop, self.tier, self.seed, self.level = prop, tier, seed, level
        self.t0 = time.time()
        self.states = 0
        self.transitions = 0
        self.traces = 0
        self.evaluations = 0
        self.nontrivial = set()
        self.nontrivial_count = 0
        self.samples = []
        self.assumptions = []
        self.trusted = ["TLC 1.8 (tla2tools.jar) and the CommunityModules Json/IOUtils operators", "g++ 12 and the driver sources under /verif/harness"]
        self.checker_cmds = []
        self.mismatches = []      # dict(key=..., what=..., case=..., expect=..., got=..., kind=...)
        self.extra = {}
        self.rule = ""
        self.preds = {}           # name -> predicate(case) used by predicate-class known findings
        self.all_cases = []       # every evaluated case (for the audit of predicate classes: class size vs failing members)
        self.exhaustive = False
        self.workdir = os.path.join(BUILD, "run_alt" if ALT else "run", prop)
        shutil.rmtree(self.workdir, ignore_errors=True)
        os.makedirs(self.workdir, exist_ok=True)
        self.rng = random.Random(seed * 7919 + 17)

    # --- statistics
    def add_mc(self, r):
        self.states += r["distinct"]
        self.transitions += r["generated"]
        self.checker_cmds.append(f"tlc -config spec/{r['cfg']}.cfg spec/{r['module']}.tla")

    def add_trace_stats(self, st, ntraces):
        self.states += st["distinct"]
        self.transitions += st["generated"]
        self.traces += ntraces
        self.evaluations += st["events"]

    def sample(self, x, limit=6):
        if len(self.samples) < limit:
            self.samples.append(x)

    def mismatch(self, key, kind, case, expect, got, what=None, driver=None):
        self.mismatches.append(dict(key=key, kind=kind, case=case, expect=expect, got=got, what=what or kind, driver=driver))

    # --- verdict
    def finish(self, extra_cov=None):
        known = load_known(self.prop)
        hits = {}
        violations = []
        for m in self.mismatches:
            sig = m["key"]
            matched = None
            for e in known:
                if sig in e.get("keys", ()):  # exact signature incl. failure kind
                    matched = e
                    break
                if "pred" in e and e["pred"] in self.preds and m["kind"] in e.get("kinds", ()):
                    # a named input class (closed predicate over the case) together with the listed failure kinds
                    try:
                        if self.preds[e["pred"]](m["case"]):
                            matched = e
                            break
                    except Exception:
                        pass
            if matched is not None:
                hits.setdefault(matched["what"], []).append(m)
            else:
                violations.append(m)
        for what, ms in hits.items():
            n = f" ({len(ms)} inputs)" if len(ms) > 1 else ""
            print(f"KNOWN-FINDING: property={self.prop} {what}{n}")
        rdir = os.path.join(REPLAYS, self.prop)
        shutil.rmtree(rdir, ignore_errors=True)
        vio_paths = []
        if violations:
            os.makedirs(rdir, exist_ok=True)
            for i, m in enumerate(violations[:50]):
                p = os.path.join(rdir, f"{i}.json")
                with open(p, "w") as f:
                    json.dump(dict(property=self.prop, tier=self.tier, seed=self.seed, **m, how_to=f"./verif replay {p}"), f, indent=1)
                vio_paths.append(p)
        cov = dict(
            states=max(self.states, 0), transitions=max(self.transitions, 0),
            traces_validated_against_impl=self.traces,
            evaluations=self.evaluations,
            distinct_nontrivial=self.nontrivial_count if self.nontrivial_count else len(self.nontrivial),
            rule=self.rule, samples=self.samples[:8] or ["(none)"],
            exhaustive=self.exhaustive,
            checker_cmd="; ".join(dict.fromkeys(self.checker_cmds))[:2000],
            trusted_base=self.trusted,
            known_findings_hit={k: len(v) for k, v in hits.items()},
        )
        # audit of the predicate classes: how many evaluated cases fall in each class and how many of them fail today
        audit = {}
        for e in known:
            if "pred" in e and e["pred"] in self.preds and self.all_cases:
                n = 0
                for c in self.all_cases:
                    try:
                        n += 1 if self.preds[e["pred"]](c) else 0
                    except Exception:
                        pass
                nf = 0
                for m in self.mismatches:
                    try:
                        nf += 1 if (m["kind"] in e.get("kinds", ()) and self.preds[e["pred"]](m["case"])) else 0
                    except Exception:
                        pass
                audit[e["pred"]] = dict(cases_in_class=n, failing=nf)
        if audit:
            cov["known_finding_classes"] = audit
        cov.update(self.extra)
        cov.update(extra_cov or {})
        ev = dict(property_id=self.prop, tier=self.tier, seed=self.seed, level=self.level, coverage=cov,
                  assumptions=self.assumptions, wall_s=round(time.time() - self.t0, 2), violations=len(violations))
        with open(os.path.join(EVID, f"{self.prop}.json"), "w") as f:
            json.dump(ev, f, indent=1)
        if violations:
            seen = set()
            for m, p in zip(violations, vio_paths):
                print(f"VIOLATION property={self.prop} replay={p}")
                w = m.get("what")
                if w not in seen:
                    seen.add(w)
                    log(f"  {w}: case={canon(m['case'])[:300]} expect={canon(m['expect'])[:200]} got={canon(m['got'])[:200]}")
            if len(violations) > len(vio_paths):
                log(f"  ... {len(violations)-len(vio_paths)} further violations not written")
            return 1
        log(f"[{self.prop}] OK: {self.evaluations} events, {self.traces} traces, {self.states} states, {time.time()-self.t0:.1f}s")
        return 0


def res_kind(expect, got):
    """Failure kind of an array-valued result."""
    if got.get("crash"):
        return "crash:" + got["crash"].split(":")[0]
    if expect.get("ok") and not got.get("ok"):
        return "rejected_valid"
    if not expect.get("ok") and got.get("ok"):
        return "accepted_invalid"
    if expect.get("shape") != got.get("shape"):
        return "wrong_shape"
    return "wrong_elements"
