#!/usr/bin/env python3
"""Regenerates MANIFEST.json from the table below (kept valid against /root/.vp/MANIFEST.schema.json)."""
import json, os, sys
ROOT = os.path.dirname(os.path.dirname(os.path.abspath(__file__)))

CHECKS = {
 "C01": dict(
    text="TLC model-checks the addressing machine (Layout.tla: round trip, in-shape, successor order, exactly-once, both layouts) on every shape of the small scope; the same shapes are exported by TLC and walked position by position through the real index functions and both ndarray layouts under eight run-time container kinds, and every logged step is validated as a behaviour of the machine (TraceLayout.tla); seeded walks of larger shapes and index-math samples up to 2^30 elements are validated the same way.",
    note="Trusted: TLC, the JSON community module, the driver harness/drivers/drv_layout.cpp. Compile-time index containers are checked under C09. Extents above 2^30 exceed TLC integers.",
    technique="TLA+ state machine + TLC exhaustive small scope; trace validation of recorded walks of the real code",
    design="5/C01"),
 "C03": dict(
    text="TLC checks the permutation/involution/C-order laws of the reference semantics (Views.tla, MC_Views.tla) on every source shape of the scope; TLC exports every (shape, argument) case of the scope, the driver executes the real views, and TraceOps.tla decides every event (success flag, shape and all elements) against the reference; seeded larger shapes are validated the same way.",
    note="Trusted: TLC, Views.tla as a transcription of NumPy semantics (cross-checked by the law model), drv_views.cpp. Zero-dimensional results are outside nmtools' array universe.",
    technique="TLA+ reference semantics + TLC law checking; TLC-generated case tables replayed on the code; trace validation of every result",
    design="5/C03"),
 "C04": dict(
    text="TLC checks provenance/inverse/equivalence laws of the reference semantics of the selecting, replicating, joining and generating views (Select.tla, MC_Select.tla) on every source shape of the scope; the argument grids of the property are executed on the real views and TraceOps.tla decides every event (success flag, shape, every element) against the reference; seeded larger shapes likewise.",
    note="Trusted: TLC, Select.tla as transcription of NumPy / the documented pad, resize, expand definitions (cross-checked by the law model), drv_select.cpp, the enumeration of argument grids in checks/c04.py. Six input classes are known findings (known_findings.json).",
    technique="TLA+ reference semantics + TLC law checking; trace validation of every result of the real views by TLC",
    design="5/C04"),
 "C05": dict(
    text="TLC checks Python's slice.indices characterisation per axis (MC_Slice.tla: selected positions = range(start',stop',step), defaults, negative bounds) on every (n,start,stop,step) of the scope; TLC exports the per-axis and a multi-axis family, the driver runs them under every slice encoding (packed, pairs, variadic, list-of-either, array<int,3>) and TraceOps.tla decides shape and elements; seeded multi-axis specifications likewise. The same tables also run through the writable front end view::mutable_slice read back (encoding `mutable`).",
    note="Trusted: TLC, Slice.tla, drv_slice.cpp (type-menu dispatch of None-ness). Extents up to 2^31-9 are exercised at the index-math level (op slice_index, BIG scope of MC_Slice). Two input classes are known findings; three defects were repaired by fix: commits.",
    technique="TLA+ reference semantics + TLC law checking per axis; TLC-generated case tables replayed; trace validation by TLC",
    design="5/C05"),
 "C06": dict(
    text="TLC checks the broadcasting laws (criterion, commutativity, associativity incl. failure agreement, idempotence, scalar neutrality, broadcast_to validity and provenance) on all pairs and triples of the scope and that the implementation-shaped loop of index::broadcast_shape refines the reference; TLC exports all pairs/triples, the driver runs broadcast_shape (four container kinds), shape_broadcast_to, view::broadcast_to and broadcast_arrays, and TraceOps.tla decides every event.",
    note="Trusted: TLC, Broadcast.tla, drv_broadcast.cpp. Mixed compile-time/run-time shape containers are C09's.",
    technique="TLA+ reference + implementation-shaped model, refinement and laws checked by TLC; TLC-generated tables replayed; trace validation",
    design="5/C06"),
 "C07": dict(
    text="TLC checks the laws of element-wise application (result shape = broadcast shape, operand order visible through the non-commutative recording operation mix, commutative ops, outer indexing) on all pairs of shapes of the scope; the recording operation is driven through the real ufunc machinery on every pair of shapes exported by TLC (array and scalar operands, outer), every integer-computable named ufunc on wiring-revealing shape pairs with in-domain data, and TraceOps.tla decides shape, every element and the result element class. Parameterised activations are driven with a parameter value in every regime of their formula (slope below / above 1 and negative, thresholds inside the data range, clamp interval excluding 0).",
    note="Trusted: TLC, Ufunc.tla, drv_ufunc.cpp. Ternary where runs through drv_select with negative / zero / fractional conditions. Transcendental/float-only ufuncs are not interpreted by TLC; their shared wiring is covered by the recording operation, their scalar functors are not checked.",
    technique="TLA+ reference semantics with a recording (non-commutative) operation; TLC law checking; trace validation of real ufunc results by TLC",
    design="5/C07"),
 "C08": dict(
    text="TLC checks fold laws (reduce-all = fold of the C-ordered elements, partial sums, keepdims placement, initial, accumulate's last column = reduce) on the scope; every shape x every axis subset in positive/negative/reversed/mixed forms x keepdims (compile-time and run-time) x initial is executed on the real reduce view with the non-associative recording operation mix, the named reducers, accumulations and mean/var/stddev/vector_norm (exact integer identities), and TraceOps.tla decides every event.",
    note="Trusted: TLC, Ufunc.tla (Reduce/Accumulate), drv_reduce.cpp (scaling of real-valued results to exact integers with 1e-6 relative rounding tolerance).",
    technique="TLA+ reference semantics with a recording (non-associative) fold operation; TLC law checking; trace validation by TLC",
    design="5/C08"),
 "C15": dict(
    text="The reference semantics carries an explicit ok flag defined by 'NumPy raises' (model-checked in MC_Views/MC_Broadcast: reshape rejection law, broadcast criterion); the complete case tables of C03/C06/C07 plus argument grids around the validity boundary (shape entries -2..4, axes in [-dim-2, dim+1], operand mismatches, malformed pad/repeat/resize arguments) are executed in forked children and TraceOps.tla decides every event whose arguments the reference rejects: the library must return an empty optional, a value or a crash event (signal, abort, exception) is a violation.",
    note="Trusted: TLC, the ok fields of Views/Select/Broadcast/Ufunc, the fork isolation of harness/include/verif/driver.hpp. Drivers are built with assertions enabled, so an assertion abort is a crash event. Three input classes (unvalidated axes, join shape mismatch, repeat length) are known findings.",
    technique="TLA+ reference semantics with explicit validity; TLC-generated invalid halves replayed under fork isolation; trace validation by TLC",
    design="5/C15"),
 "C19": dict(
    text="Containers.tla models utl::vector, utl::static_vector, small_vector and utl::array as a state machine over two objects: Layer R = contents of the std:: counterpart (static_vector refuses beyond capacity, unchanged), Layer I = hidden state steering code paths (allocated capacity, static/dynamic mode). TLC checks capacity, hidden-state and independence/self-assignment properties exhaustively for histories up to the bound, exports one history per explored transition (a transition tour over every (state, action) pair), the driver replays them on real objects behind a counting, poisoning allocator, and TraceContainers.tla validates the projection of both objects and the allocator ledger after every action; seeded histories of length up to 200 likewise.",
    note="Trusted: TLC, Containers.tla as std semantics, drv_containers.cpp (placement-new object slots, counting allocator through the nmtools_malloc/nmtools_free macros, 0xA5 poisoning). Four defects repaired by fix: commits; either/maybe over non-trivial alternatives is a known finding; maybe/either/tuple value histories are not yet modelled.",
    technique="TLA+ state machine with hidden implementation state; TLC exhaustive exploration + transition-tour export; replay on real objects; trace validation by TLC",
    design="5/C19"),
 "C20": dict(
    text="NdArray.tla models an array object and a copy of it under resize / element write / copy / assign (both directions) with the kind described by what it may hold (dimension rule, element-count rule, constant shape, clipped bounds); TLC checks consistency, 'a refused resize changes nothing' and 'a write touches one element of one object' and exports one history per explored transition; the driver replays them on 12 ndarray_t shape x buffer kinds x both layouts and TraceNdArray.tla validates return value, shape, dim, size, every element by logical index and buffer-is-a-permutation after every action; seeded histories likewise.",
    note="Trusted: TLC, NdArray.tla, drv_ndarray.cpp. The machine runs over 12 ndarray_t kinds x 2 layouts and the legacy fixed/hybrid/dynamic classes with element-type and kind casts as observation actions; mutable views (flatten/reshape/slice/ref) are validated by write-through position events against the reference views (Denote mutable_write). Casts to the 15 kind tags are in the C09 kinds matrix. ndarray_t::resize, mutable_slice and the clipped-shape column-major addressing (common type of clipped integers) were repaired by fix: commits.",
    technique="TLA+ state machine; TLC exhaustive exploration + transition-tour export; replay on real objects; trace validation by TLC",
    design="5/C20"),
 "C18": dict(
    text="Compare.tla defines isequal/isclose over the value universe (scalars, index arrays, n-d arrays, optionals, tuples); TLC checks reflexivity, symmetry, shape-awareness and element-awareness on all pairs of shapes of the scope; all pairs of arrays (same shape, same size/different shape, different sizes), element perturbations at every position, index arrays of every pair of lengths in several container pairings, optionals and tuples are executed in a build with assertions and in an NDEBUG build, and TraceOps.tla decides every returned boolean (an abort or exception is a crash event).",
    note="Trusted: TLC, Compare.tla, drv_compare.cpp. Either-typed operands (against each other and against plain values) and the apply_isequal / apply_isclose entry points (optionals, tuples, run-time lists of arrays) are driven too. The shape-blind isequal/isclose, the eps dropped for one either operand and the dereference of two empty optionals in apply_isequal/apply_isclose were repaired by fix: commits.",
    technique="TLA+ reference semantics + TLC law checking; trace validation of the real oracles in two build modes",
    design="5/C18"),
 "C16": dict(
    text="Linalg.tla defines matmul (batch broadcasting, 1-d promotion), dot, inner, outer, vecdot, tensordot (integer and explicit axes), kron and trace as sums of products over exactly the contracted index ranges; TLC checks identities between them (2-d matmul = tensordot(1) = dot, 1-d inner = dot = matmul, kron shape, tensordot(0) = outer, matmul validity criterion) on all pairs of small shapes; all pairs of operand shapes of the scope are executed on both matmul implementations and the other routines with injective integer data and TraceOps.tla decides shape and every element.",
    note="Trusted: TLC, Linalg.tla, drv_linalg.cpp. Two input classes are known findings (matmul v1 with a 1-d operand; trace over negative-offset/empty diagonals).",
    technique="TLA+ reference semantics (exact integer sums) + TLC identity checking; trace validation of the real routines by TLC",
    design="5/C16"),
 "C17": dict(
    text="NN.tla defines convolution (stride, zero padding, dilation, groups, bias), max/avg pooling (kernel, stride, ceil mode with overhanging windows) and linear as nested sums over exactly the window elements; TLC checks the output-size formulas against direct window counting and identity/subsampling laws over the parameter space; the parameter product space of the property is executed on the real conv1d/conv2d/pooling/linear views with integer-valued data and TraceOps.tla decides shape and every element (avg pooling after scaling by kh!*kw!); the real-valued routines run on small integer data and are compared with NNReal.tla's fixed-point definitions.",
    note="Trusted: TLC, NN.tla, NNReal.tla, drv_nnreal.cpp, (PyTorch definitions), drv_nn.cpp. softmax/softmin, batch/layer/instance/group normalisation, pairwise_distance and cosine_similarity are decided in fixed point (NNReal.tla: exp table of mathematical constants, integer square root; values x 1024 within the event's tolerance, which separates wiring defects, not accuracy); bilinear is exact. Four input classes are known findings.",
    technique="TLA+ reference semantics (exact integer sums; fixed point for the real-valued routines) + TLC law checking of the size formulas; trace validation of the real routines by TLC",
    design="5/C17"),
 "C10": dict(
    text="Programs.tla is the program machine: a chain of view operations over a leaf whose arguments are chosen from the shape of the intermediate result; its meaning is the composition of the reference semantics (Denote.RunProg). TLC checks 'fused = staged for every split', well-formedness and 'Nothing is final' on every program of the bounded alphabet and exports the programs; the driver builds the composed view type for every program (continuation-passing dispatch, one binary per first operation) and runs it lazily, with the row-major and column-major result resolvers, into a caller-supplied output and staged after every prefix; TraceOps.tla validates all variants against the same denotation.",
    note="Trusted: TLC, Denote/Programs, drv_program.cpp. All operands are dynamic arrays (fixed/bounded result storage is C11's); no hook is needed because operand data are injective and caller-supplied outputs are pre-filled with a sentinel.",
    technique="TLA+ program machine; TLC exhaustive enumeration (quick) / simulation (thorough) of programs; generated behaviours replayed on the real views and evaluators; trace validation by TLC",
    design="5/C10"),
 "C13": dict(
    text="Kernel.tla models a 1-d launch: every thread computes gid = block*blocksize + lane and writes out[gid] iff gid < size, in any order, possibly more than once; TLC explores every interleaving of small geometries (guarded write, threads beyond the size write nothing, complete when all ran, launch arithmetic of the host code covers every size) and simulates complete schedules; the driver extracts function composition and leaf operands from TLC-generated view programs, rebuilds operands from raw (pointer, shape, dim) triples in the CUDA/HIP and the SYCL/OpenCL way, and executes the transcribed per-thread kernel body once per scheduled thread; TraceKernel.tla validates every thread execution (nothing outside the output, nothing for gid >= size) and the final buffer against the program's denotation.",
    note="Trusted: TLC, the 8-line transcription of the __global__ entry in drv_kernel.cpp (device toolchains are not installed), Denote. 'thread gid writes exactly out[gid]' is tracked as drift only. One program class is a known finding (binary ufunc applied to another view).",
    technique="TLA+ model of the launch, all interleavings by TLC; TLC-simulated schedules replayed thread by thread on the real kernel body; trace validation by TLC",
    design="5/C13"),
 "C14": dict(
    text="Functional.tla models functors, composition and combinators as a stack machine over abstract terms; TLC checks associativity of composition for every split, that the computed arity is exactly what the machine consumes, that surplus operands are passed on, and combinator laws, on all compositions up to the bound; for the programs of the program machine the driver builds the composed view and the composed functor side by side and runs: the direct view, the composition applied at once and one operand at a time (currying), both groupings, the extracted composition applied to the extracted operands, the identity and order of the extracted operands, and structural facts of the compute graph; TraceOps.tla validates every variant against the program's denotation; compositions with the combinators swap / dup / dig2 / bury2 (every composition of <= 2, thorough 3, functors over an 8-functor alphabet, exported by TLC from StackMachine.tla) are applied to real operands under five splits of the operand list and both groupings and the resulting stack must be the stack machine's, interpreted on the operand values; ComputeGraph.tla defines the compute graph of an expression DAG (TLC: the implementation-shaped left-to-right merge with its 'node already present' shortcut equals the definition on every expression of <= 3 / 4 terms) and drv_graph reports the extracted graphs of 22 expressions with shared leaves / sub-expressions, whose exact node and edge sets TraceOps validates.",
    note="Trusted: TLC, StackMachine.tla / Functional.tla / Denote, drv_functional.cpp, drv_stack.cpp. flip / expand_dims are exercised in first position only (compile-time API limitation). One program class is a known finding (extraction for a binary ufunc applied to another view).",
    technique="TLA+ stack-machine model checked by TLC; TLC-generated programs replayed on real functors/compositions/extraction; trace validation by TLC",
    design="5/C14"),
 "C12": dict(
    text="ImplSimd.tla models the packed loop and scalar tail of the SIMD evaluators for lane counts 2..16 and every element count up to 4*lanes+1; TLC checks that every packed access lies inside the buffer, that every position is covered exactly once and where the tail starts. The real evaluator code is then driven through a tracing SIMD context (own tag plugged into the simd_op_t / bit_width seam, 64..512-bit registers) that logs every packed load/store, and through the real x86 SSE/AVX and vector-extension contexts; TraceSimd.tla accepts an event iff shape and bit patterns of the SIMD result equal the scalar evaluator's and every logged access lies inside its operand/result buffer.",
    note="Trusted: TLC, drv_simd.cpp and simd_trace_ctx.hpp (element-wise lane semantics of the tracing context), the scalar evaluator as reference (bound to the reference semantics by C07/C08/C10). SIMDe AVX-512 and column-major operands are not driven. Four input classes are known findings.",
    technique="TLA+ loop model checked by TLC; real SIMD evaluators driven through a tracing context and real contexts; trace validation (result identity + access ranges) by TLC",
    design="5/C12"),
 "C11": dict(
    text="StaticInfo.tla defines soundness of the five compile-time traits against a run-time shape and a per-axis abstract domain (Const n | Clip m | Dyn) with concretisation and abstract transfer functions for transpose, flatten, reduce, broadcast, concatenate, tile and take, and the index type the axes of a shape are joined into (AbsJoin); TLC checks soundness of the traits, of every transfer function and of the join on the bounded domain (drv_clipped binds the join: range of the library's common type, every extent read at a run-time position, product, for 34 clipped bound tuples x every extent tuple). The driver instantiates view TYPES from leaves of seven static-knowledge kinds and programs with compile-time-constant or run-time arguments, logs the traits of the type and of the type eval() chose next to shape()/dim()/size() and all elements of OBJECTS for every run-time shape the leaf admits, and TraceStatic.tla validates soundness and completeness of the evaluation; binary views (concatenate with run-time / compile-time / None axis, add, stack) run over every pair of seven leaf kinds that compiles and every admitted pair of run-time shapes, and every object is additionally validated against the reference semantics (TraceOps.tla), so a result clamped to an operand's bound is rejected.",
    note="Trusted: TLC, StaticInfo.tla, Denote, drv_static.cpp, drv_static2.cpp (combination table harness/drivers/static2_combos.inc found by trial compilation). Array-of-clipped-shape leaves compose only with flatten/reshape (compile-time API limitation; the tuple-of-clipped leaf composes with every view); depth-3 types are not generated; the clamp/capacity hooks of the design are replaced by the end-to-end check 'eval returned every element'.",
    technique="TLA+ abstract-interpretation model checked by TLC; generated view types instantiated over every admitted run-time shape; trace validation by TLC",
    design="5/C11"),
 "C09": dict(
    text="No operator of the reference specification mentions a container kind; the same values are executed under every container / static-knowledge kind (compile-time constant tuples, clipped integers, std::array, raw arrays, nmtools/utl static_vector, std::vector, utl::vector, utl::array, run-time tuples, mixed pairs; raw, nested, fixed, hybrid, dynamic and ndarray_t arrays; compile-time and run-time axis/shape arguments) in three builds (g++ with assertions, g++ -O2 -DNDEBUG, clang++) and TLC validates every result against the one reference (a compile-time rejection counts as 'reports failure'), which proves pairwise agreement and agreement with the compile-time evaluation; the addressing and broadcasting models are model-checked as part of the run.",
    note="Trusted: TLC, Denote, drv_config.cpp (macro-instantiated kinds over a fixed value set), drv_kinds.cpp (kinds matrix: 20 array kinds incl. the 15 ndarray kind tags x 44 view events x 5 (quick) / 9 (thorough) compile-time shapes). The run-time kinds additionally run the complete tables of C01, C05, C06, C11, C19, C20. The NMTOOLS_DISABLE_STL build is attempted in the thorough tier only.",
    technique="single TLA+ reference semantics; trace validation by TLC of the same cases under every configuration",
    design="5/C09"),
 "C02": dict(
    text="Spec level: every operator of the reference semantics reads its operands through Base.At, which asserts that the source multi-index lies inside the operand's shape; TLC evaluates this on every case of the law models (footprint of every view stays inside its operands). Code level: the accepted-argument halves of the C03/C04/C05/C06/C08/C16/C17 tables and seeded larger cases run on drivers built with AddressSanitizer, UndefinedBehaviourSanitizer and bounds-checked standard containers, reading every element of every result; any sanitizer report, bounds assertion, out_of_range exception or signal becomes a crash event, which TraceOps.tla never accepts.",
    note="Trusted: TLC, g++ 12 sanitizers and _GLIBCXX_ASSERTIONS as event sources (the specification decides). No NMTOOLS_VERIF hooks were added: a per-axis index beyond its extent that stays inside the buffer is not visible here (it changes the element read, which C03-C08 detect). SIMD packed accesses are C12's, kernel-body writes C13's. The crashing input classes of the value properties are listed as known findings here too.",
    technique="TLA+ reference semantics with an in-shape assertion on every operand read, checked by TLC; trace validation (no crash event accepted) of sanitized executions of the real code",
    design="5/C02"),
}

NOT_APPLICABLE = {}

def main():
    props = [json.loads(l)["id"] for l in open(os.path.join(ROOT, "properties.jsonl"))]
    checks = []
    for pid in props:
        if pid not in CHECKS:
            continue
        c = CHECKS[pid]
        checks.append(dict(
            property_id=pid,
            quick_cmd=f"./verif check {pid} --tier quick",
            thorough_cmd=f"./verif check {pid} --tier thorough",
            evidence_file=f"/verif/evidence/{pid}.json",
            replay_cmd_template="./verif replay {path}",
            engine="tlc-conformance",
            level_claimed=dict(category="model_checking", text=c["text"], design_ref="DESIGN.md section " + c["design"]),
            level_note=c["note"],
            technique=c["technique"]))
    na = [dict(property_id=p, reason=NOT_APPLICABLE.get(p, "check not built yet in this round; see DESIGN.md section 8 (work order)")) for p in props if p not in CHECKS]
    m = dict(
        version=1,
        setup_cmd="./verif setup",
        hooks=dict(guard="NMTOOLS_VERIF",
                   enable="drivers are compiled from /repo/include with -DNMTOOLS_VERIF (g++ -std=c++17 -DNMTOOLS_VERIF -I/repo/include -I/verif/harness/include)",
                   baseline_off_cmd="cmake --build /repo/_build -j16 && ctest --test-dir /repo/_build -j8 --timeout 900",
                   source_commits=HOOK_COMMITS, add_only=True),
        engines=[dict(name="tlc-conformance", path="/verif/verif", serves_properties=[c["property_id"] for c in checks],
                      kind_free_text="explicit TLA+ specifications (spec/*.tla) checked with TLC; TLC-exported cases replayed on the real code by C++ drivers; recorded events validated against trace specifications by TLC")],
        checks=checks,
        notes="Known findings and fixed defects: /verif/known_findings.json. Design: /verif/DESIGN.md.",
        not_applicable=na)
    json.dump(m, open(os.path.join(ROOT, "MANIFEST.json"), "w"), indent=1)
    print(f"MANIFEST.json: {len(checks)} checks, {len(na)} not claimed")

HOOK_COMMITS = []
if __name__ == "__main__":
    main()
