#!/usr/bin/env python3
"""Self-test of the verification machinery (./verif selftest [ID ...]).

1. Mutation: every seeded breaking change under seeded/<ID>/patch.diff (written by agents that saw only the property text;
   each compiles and passes the pinned suite) is applied to a scratch copy of /repo/include outside /repo and /verif, the
   quick check of <ID> runs against the copy (VERIF_REPO) and must report a VIOLATION.  Evidence / replay files of the
   registered checks are not touched (vlib.ALT).
2. Binding: for every trace specification one recorded event file of the last real run is corrupted in one field (or one
   event is removed) and the trace specification must reject it.

Exit status 0 iff every mutant is caught and every corrupted trace is rejected."""
import glob, json, os, shutil, subprocess, sys, tempfile
ROOT = os.path.dirname(os.path.dirname(os.path.abspath(__file__)))
sys.path.insert(0, os.path.join(ROOT, "tools")); sys.path.insert(0, ROOT)


def mutants(ids):
    ok = True
    for d in sorted(glob.glob(os.path.join(ROOT, "seeded", "C*"))):
        name = os.path.basename(d); pid = name[:3]          # seeded/C07b is a second seed for C07
        if ids and pid not in ids and name not in ids: continue
        scratch = tempfile.mkdtemp(prefix="verif_selftest_")
        try:
            shutil.copytree("/repo/include", os.path.join(scratch, "include"))
            r = subprocess.run(["patch", "-p1", "-s", "-i", os.path.join(d, "patch.diff")], cwd=scratch, capture_output=True, text=True)
            if r.returncode != 0:
                print(f"MUTANT {name}: patch does not apply to the current tree: {r.stdout[-200:]}{r.stderr[-200:]}"); ok = False; continue
            env = dict(os.environ, VERIF_REPO=scratch)
            r = subprocess.run([os.path.join(ROOT, "verif"), "check", pid, "--tier", "quick"], env=env, capture_output=True, text=True, timeout=3600)
            nv = sum(1 for l in r.stdout.splitlines() if l.startswith("VIOLATION"))
            verdict = "caught" if (r.returncode == 1 and nv > 0) else f"MISSED (rc={r.returncode})"
            if verdict != "caught": ok = False
            print(f"MUTANT {name}: {verdict}, {nv} violation lines")
        finally:
            shutil.rmtree(scratch, ignore_errors=True)
    return ok


def corrupt_and_validate(name, module, files, cfg, corrupt):
    import vlib
    src = next((f for f in files if os.path.exists(f) and os.path.getsize(f) > 0), None)
    if not src:
        print(f"BINDING {name}: no recorded events (run the check first)"); return False
    evs = [json.loads(l) for l in open(src) if l.strip()][:400]
    base = os.path.join(vlib.BUILD, "selftest"); os.makedirs(base, exist_ok=True)
    clean = os.path.join(base, name + ".clean.ndjson"); bad = os.path.join(base, name + ".bad.ndjson")
    open(clean, "w").write("\n".join(json.dumps(e) for e in evs) + "\n")
    m0, _ = vlib.validate_traces(module, [clean], cfg=cfg)
    known_bad = {m["event"].get("id") for m in m0}
    evs2 = json.loads(json.dumps(evs))
    what = corrupt(evs2, known_bad)
    if what is None:
        print(f"BINDING {name}: no event suitable for corruption"); return False
    open(bad, "w").write("\n".join(json.dumps(e) for e in evs2) + "\n")
    m1, _ = vlib.validate_traces(module, [bad], cfg=cfg)
    ok = len(m1) > len(m0)
    print(f"BINDING {name}: {what}: {'rejected' if ok else 'ACCEPTED'} ({len(m0)} -> {len(m1)} rejected events)")
    return ok


def bump_first(pred, path):
    """corrupt: add 1 to the first integer found at `path` (list of keys) of the first event satisfying pred"""
    def f(evs, known_bad):
        for e in evs:
            if e.get("id") in known_bad or not pred(e): continue
            x = e
            try:
                for k in path[:-1]: x = x[k]
                v = x[path[-1]]
            except (KeyError, IndexError, TypeError):
                continue
            if isinstance(v, bool) or not isinstance(v, int): continue
            x[path[-1]] = v + 1
            return f"event id {e.get('id')}: field {'.'.join(map(str, path))} {v} -> {v + 1}"
        return None
    return f


def drop_event(pred):
    def f(evs, known_bad):
        for i, e in enumerate(evs):
            if pred(e) and e.get("id") not in known_bad:
                del evs[i]; return f"removed one '{e.get('e')}' event of id {e.get('id')}"
        return None
    return f


def bindings():
    import vlib
    R = os.path.join(vlib.BUILD, "run")
    g = lambda *p: sorted(glob.glob(os.path.join(R, *p)))
    ok = True
    okres = lambda e: e.get("res", {}).get("ok") and e["res"].get("elems") and isinstance(e["res"]["elems"][0], int)
    ok &= corrupt_and_validate("TraceOps(C03)", "TraceOps", g("C03", "*.events.0.ndjson"), None, bump_first(okres, ["res", "elems", 0]))
    ok &= corrupt_and_validate("TraceOps(C03,size)", "TraceOps", g("C03", "*.events.0.ndjson"), None, bump_first(lambda e: e.get("res", {}).get("ok") and "size" in e["res"], ["res", "size"]))
    ok &= corrupt_and_validate("TraceOps(C05,shape)", "TraceOps", g("C05", "*.events.0.ndjson"), None, bump_first(lambda e: e.get("res", {}).get("ok") and e["res"].get("shape"), ["res", "shape", 0]))
    ok &= corrupt_and_validate("TraceLayout(step)", "TraceLayout", g("C01", "*.events.0.ndjson"), None, bump_first(lambda e: e.get("e") == "step" and e.get("idx"), ["idx", 0]))
    ok &= corrupt_and_validate("TraceLayout(removed step)", "TraceLayout", g("C01", "*.events.0.ndjson"), None, drop_event(lambda e: e.get("e") == "step" and e.get("k") == 1))
    ok &= corrupt_and_validate("TraceNdArray", "TraceNdArray", g("C20", "nd_dyn_dyn.events.0.ndjson"), "TraceNdArray_dyn_dyn", bump_first(lambda e: e.get("e") == "step", ["proj", "obj", "elems", 0]))
    ok &= corrupt_and_validate("TraceNdArray(strides)", "TraceNdArray", g("C20", "nd_dyn_dyn.events.0.ndjson"), "TraceNdArray_dyn_dyn", bump_first(lambda e: e.get("e") == "step", ["proj", "obj", "ostrides", 0]))
    def first_nonempty(evs, known_bad, pick, what):
        for e in evs:
            if e.get("id") in known_bad: continue
            r = pick(e)
            if r: return f"event id {e.get('id')}: {what}"
        return None
    def cont(e):
        if e.get("e") == "step":
            for o in e.get("proj", []):
                if o.get("live") and o.get("elems"): o["elems"][0] += 1; return True
    def cont_ledger(e):
        if e.get("e") == "end": e["allocs"] = e.get("allocs", 0) + 1; return True
    def kern(e):         # (a thread writing another in-range cell is only "drift" for TraceKernel: the final buffer and the guards decide)
        if e.get("e") == "kend" and e.get("out") and isinstance(e["out"][0], int): e["out"][0] += 1; return True
    def kern_guard(e):
        if e.get("e") == "kthread": e["guard_ok"] = False; return True
    def simd_tok(e):
        el = e.get("res", {}).get("simd", {}).get("elems")
        if el: el[0] = "x00000001" if len(el[0]) == 9 else "x0000000000000001"; return True
    def simd_acc(e):
        acc = e.get("res", {}).get("acc")
        if acc and acc[0][1] >= 0: acc[0][2] = acc[0][4]; return True          # an access that starts at the end of its buffer
    def stat(e):
        el = e.get("res", {}).get("eval_elems")
        if el: el[0] += 1; return True
    def stat_trait(e):
        t = e.get("res", {}).get("traits")
        if t is not None and not t.get("fixed_dim"): t["fixed_dim"] = [e["res"].get("dim", 1) + 1]; return True
    ok &= corrupt_and_validate("TraceContainers(element)", "TraceContainers", g("C19", "cont_vector.events.0.ndjson"), "TraceContainers_vector_2", lambda evs, kb: first_nonempty(evs, kb, cont, "first element of a live object + 1"))
    ok &= corrupt_and_validate("TraceContainers(ledger)", "TraceContainers", g("C19", "cont_vector.events.0.ndjson"), "TraceContainers_vector_2", lambda evs, kb: first_nonempty(evs, kb, cont_ledger, "one allocation left at the end of the history"))
    ok &= corrupt_and_validate("TraceKernel(final)", "TraceKernel", g("C13", "kern*.events.0.ndjson"), None, lambda evs, kb: first_nonempty(evs, kb, kern, "first element of the final output buffer + 1"))
    ok &= corrupt_and_validate("TraceKernel(guard)", "TraceKernel", g("C13", "kern*.events.0.ndjson"), None, lambda evs, kb: first_nonempty(evs, kb, kern_guard, "a thread reports a changed guard cell"))
    ok &= corrupt_and_validate("TraceSimd(value)", "TraceSimd", g("C12", "simd.events.0.ndjson"), None, lambda evs, kb: first_nonempty(evs, kb, simd_tok, "first SIMD result element replaced"))
    ok &= corrupt_and_validate("TraceSimd(access)", "TraceSimd", g("C12", "simd.events.0.ndjson"), None, lambda evs, kb: first_nonempty(evs, kb, simd_acc, "a packed access moved to the end of its buffer"))
    ok &= corrupt_and_validate("TraceStatic(value)", "TraceStatic", g("C11", "static0.events.0.ndjson"), None, lambda evs, kb: first_nonempty(evs, kb, stat, "first element of the evaluated result + 1"))
    ok &= corrupt_and_validate("TraceStatic(trait)", "TraceStatic", g("C11", "static0.events.0.ndjson"), None, lambda evs, kb: first_nonempty(evs, kb, stat_trait, "a fixed_dim trait that the run-time dimension contradicts"))
    def join_at(e):
        r = e.get("res", {})
        if e.get("op") == "join" and r.get("at"): r["at"][0] += 1; return True
    def join_range(e):
        r = e.get("res", {})
        if e.get("op") == "join" and r.get("join") and max(e.get("bounds", [0])) > 1: r["join"][1] = 1; return True      # a joined type that cannot hold the largest bound
    def dag_edge(e):
        r = e.get("res", {})
        if e.get("op") == "graph_dag" and r.get("elems") and r.get("shape", [0, 0])[1] >= 3:
            r["elems"] = r["elems"][:-2]; r["shape"][1] -= 1; return True                                                    # one edge of the extracted graph is missing
    ok &= corrupt_and_validate("TraceStatic(join, extent)", "TraceStatic", g("C11", "clipped_join.events.0.ndjson"), None, lambda evs, kb: first_nonempty(evs, kb, join_at, "an extent read at a run-time position + 1"))
    ok &= corrupt_and_validate("TraceStatic(join, range)", "TraceStatic", g("C11", "clipped_join.events.0.ndjson"), None, lambda evs, kb: first_nonempty(evs, kb, join_range, "the joined index type's upper bound set to 1"))
    ok &= corrupt_and_validate("TraceOps(C14, compute graph)", "TraceOps", g("C14", "graph_dag.events.0.ndjson"), None, lambda evs, kb: first_nonempty(evs, kb, dag_edge, "one edge removed from an extracted compute graph"))
    return ok


def main(argv):
    ids = [a.upper() for a in argv if a.upper().startswith("C")]
    only = [a for a in argv if a in ("mutants", "bindings")]
    ok = True
    if not only or "bindings" in only: ok &= bindings()
    if not only or "mutants" in only: ok &= mutants(ids)
    print("SELFTEST", "PASS" if ok else "FAIL")
    return 0 if ok else 1


if __name__ == "__main__":
    sys.exit(main(sys.argv[1:]))
