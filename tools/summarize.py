#!/usr/bin/env python3
"""Development helper: summarise the mismatches of the last run of a check (build/run/<ID>)."""
import json, glob, collections, sys
prop = sys.argv[1]
keyf = sys.argv[2] if len(sys.argv) > 2 else "op"
cnt = collections.Counter(); ex = {}; tot = 0; nev = 0
for f in glob.glob(f'/verif/build/run/{prop}/*.events.*.ndjson'):
    evs = [json.loads(l) for l in open(f)]
    nev += len(evs)
    try: bad = [json.loads(l) for l in open(f + '.bad')]
    except Exception: continue
    for b in bad:
        e = evs[b['l'] - 1]; exp = b['expect']; got = e.get('res', {})
        kind = ('crash:' + got['crash'][:40]) if got.get('crash') else ('rejected_valid' if exp.get('ok') and not got.get('ok') else 'accepted_invalid' if not exp.get('ok') and got.get('ok') else 'wrong_shape' if got.get('shape') != exp.get('shape') else 'wrong_elements')
        k = (e.get('op'), kind, 'valid' if exp.get('ok') else 'invalid', e.get('cfg', ''), e.get('args', {}).get('enc', ''))
        cnt[k] += 1; tot += 1
        ex.setdefault(k, (e.get('shapes'), e.get('args'), exp.get('shape'), got.get('shape')))
print(nev, 'events;', tot, 'mismatches')
for k, v in sorted(cnt.items(), key=lambda x: -x[1]):
    print(v, k, json.dumps(ex[k])[:300])
