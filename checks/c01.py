"""C01: multi-index <-> flat offset addressing (Layout.tla / TraceLayout.tla / drv_layout)."""
import json, os
import vlib
from vlib import Check, canon

RUNTIME_KINDS = ["vec", "veci", "vecl", "arr", "sv", "utlsv", "utlvec", "utlarr"]


def seeded_cases(ck, n_walk, n_big, start_id):
    cases = []
    rng = ck.rng
    cid = start_id
    for _ in range(n_walk):               # complete walks of larger shapes (storage involved)
        d = rng.randint(1, 6)
        while True:
            shape = [rng.randint(1, 9) for _ in range(d)]
            p = 1
            for x in shape: p *= x
            if p <= 4000: break
        cid += 1
        cases.append(dict(id=cid, cfg=rng.choice(RUNTIME_KINDS), shape=shape))
    for _ in range(n_big):                # index math only: huge extents, sampled positions
        d = rng.randint(1, 6)
        target = rng.choice([2 ** 20, 2 ** 24, 2 ** 28, 2 ** 30 - 1])
        shape = []
        rem = target
        for i in range(d):
            if i == d - 1: e = max(1, rem)
            else:
                e = rng.randint(1, max(1, int(rem ** (1.0 / (d - i))) * 2))
                e = max(1, min(e, rem))
            shape.append(e)
            rem = max(1, rem // e)
        p = 1
        for x in shape: p *= x
        ks = sorted({0, p - 1, p // 2} | {rng.randrange(p) for _ in range(12)})
        cid += 1
        cases.append(dict(id=cid, cfg=rng.choice(["big_sz", "big_i64", "big_u32", "big_i32"]), shape=shape, ks=ks))
    def dig(v):
        out = []
        while v: out.append(v & 32767); v >>= 15
        return out
    for _ in range(n_big // 2):           # sizes near 2^31 (TLC integers) and near 2^33 .. 2^58 (digit lists): extents below 2^15
        if rng.random() < 0.4:
            d = rng.randint(1, 4); target = 2 ** 31 - 1
            shape = []; rem = target
            for i in range(d):
                e = max(1, rem) if i == d - 1 else max(1, min(rem, rng.randint(1, max(1, int(rem ** (1.0 / (d - i))) * 2))))
                shape.append(e); rem = max(1, rem // e)
            p = 1
            for x in shape: p *= x
            ks = sorted({0, p - 1, p // 2} | {rng.randrange(p) for _ in range(8)})
            cid += 1
            cases.append(dict(id=cid, cfg=rng.choice(["big_sz", "big_i64"]), shape=shape, ks=ks))
        else:
            d = rng.randint(3, 6); bits = rng.choice([33, 36, 40, 40, 44, 52, 58])
            per = min(14, max(2, bits // d))
            shape = [rng.randint(2 ** (per - 1), min(32767, 2 ** (per + 1) - 1)) for _ in range(d)]
            p = 1
            for x in shape: p *= x
            ks = sorted({0, p - 1, p // 2, 2 ** 31, 2 ** 32 + 1} | {rng.randrange(p) for _ in range(8)})
            cid += 1
            cases.append(dict(id=cid, cfg=rng.choice(["wide_sz", "wide_i64"]), shape=shape, kds=[dig(k) for k in ks if k < p]))
    # fixed-length containers of 32-bit elements: every stride fits the element type (trailing product < 2^31), the size does not
    for _ in range(max(4, n_big // 4)):
        while True:
            d = rng.randint(3, 5)
            tail = []; rem = 2 ** 31 - 1
            for i in range(d - 1):
                e = rng.randint(2, max(2, min(32767, int(rem ** (1.0 / (d - 1 - i)))))); tail.append(e); rem = max(1, rem // e)
            tp = 1
            for x in tail: tp *= x
            lo = (2 ** 32) // tp + 1; hi = min(32767, (2 ** 34) // tp + 2)
            if tp < 2 ** 31 and lo <= hi: break
        first = rng.randint(lo, hi)
        shape = [first] + tail
        p = first * tp
        ks = sorted({0, p - 1, p // 2, 2 ** 31, 2 ** 32, 2 ** 32 + 1, tp * (first - 1)} | {rng.randrange(p) for _ in range(8)})
        cid += 1
        cases.append(dict(id=cid, cfg=rng.choice(["wide_arr_u32", "wide_arr_i32"]), shape=shape, kds=[dig(k) for k in ks if k < p]))
    return cases


def run(tier, seed):
    ck = Check("C01", tier, seed)
    quick = tier == "quick"
    mc = vlib.tlc_model_check("MC_Layout", "MC_Layout_quick" if quick else "MC_Layout")
    ck.add_mc(mc)
    shapes = vlib.tlc_generate("GenLayout", "GenLayout", env={"SCOPE": tier}, key_extra=tier)
    drv = vlib.build_driver("drv_layout")
    cases = []
    cid = 0
    kinds = RUNTIME_KINDS
    for s in shapes:
        for kd in kinds:
            cid += 1
            cases.append(dict(id=cid, cfg=kd, shape=s["shape"]))
    n_scope = len(cases)
    cases += seeded_cases(ck, 40 if quick else 400, 200 if quick else 3000, cid)
    ck.rng.shuffle(cases)
    files = vlib.run_driver(drv, cases, ck.workdir, "layout")
    mism, st = vlib.validate_traces("TraceLayout", files)
    ck.add_trace_stats(st, len(cases))
    by_id = {c["id"]: c for c in cases}
    for m in mism:
        ev = m["event"]
        case = by_id.get(ev.get("id"), {})
        crash = ev.get("res", {}).get("crash") if isinstance(ev.get("res"), dict) else None
        kind = ("crash:" + crash.split(":")[0]) if crash else "wrong_" + m["why"].split()[0]
        key = canon(["layout", case.get("cfg"), case.get("shape"), ev.get("k"), kind])
        ck.mismatch(key, kind, case, m["expect"], {k: v for k, v in ev.items() if k not in ("id",)},
                    what=f"addressing event '{m['why']}' differs from the specification (cfg={case.get('cfg')}, shape={case.get('shape')})", driver="drv_layout")
    nontriv = {canon(c["shape"]) for c in cases if len(c["shape"]) >= 2 and sum(1 for x in c["shape"] if x > 1) >= 2}
    ck.nontrivial_count = len(nontriv)
    ck.rule = ("cases = every shape of the model-checked scope (TLC export of MC_Layout's shape set) under every run-time index container kind, "
               "plus seeded larger shapes (complete walks with products <= 4000; index-math-only samples with products up to 2^30 in size_t/int64/uint32/int32, up to 2^31-1 in size_t/int64, and 2^33 .. 2^58 in size_t/int64 with wide values as base-2^15 digit lists, sizes 2^32 .. 2^34 in fixed-length containers of 32-bit elements whose strides still fit "
               "checked by TraceLayout's multi-digit arithmetic); "
               "non-trivial = distinct shapes with at least two extents > 1 (where stride order matters)")
    ck.exhaustive = True
    ck.extra.update(scope_cases=n_scope, seeded_cases=len(cases) - n_scope, kinds=kinds)
    ck.assumptions += ["compile-time (ct/clipped/tuple) index containers are covered by C09's generated stanzas, not here",
                       "sizes beyond 2^31 are validated through TraceLayout's base-2^15 digit arithmetic (extents below 2^15 per axis), not through TLC integers"]
    for c in cases[:3]: ck.sample(c)
    return ck.finish()


def replay(rec):
    case = rec["case"]
    drv = vlib.build_driver("drv_layout")
    wd = os.path.join(vlib.BUILD, "replay"); os.makedirs(wd, exist_ok=True)
    files = vlib.run_driver(drv, [case], wd, "replay", nproc=1)
    mism, st = vlib.validate_traces("TraceLayout", files)
    print("case:", canon(case))
    for m in mism:
        print("MISMATCH", m["why"], "expected", canon(m["expect"]), "observed", canon(m["event"]))
    print("replay:", "violation reproduced" if mism else "no mismatch on the current tree")
    return 1 if mism else 0
