"""Common pipeline for operation-event families: cases -> driver (real code) -> TraceOps (TLC) -> mismatches."""
import json, os
import vlib
from vlib import canon, res_kind


def case_key(c, kind):
    return canon([c.get("op"), c.get("shapes"), c.get("args"), c.get("cfg", ""), kind])


def number(cases, start=0):
    out = []
    for i, c in enumerate(cases):
        d = dict(c)
        d["id"] = start + i + 1
        out.append(d)
    return out


def run_ops(ck, drv, cases, want="valid", label="ops", trace_module="TraceOps", env=None, nproc=None, describe=None):
    """Execute cases on the real code and validate the events.  want = valid: mismatches on cases the specification
    accepts are reported (value properties); invalid: those on cases the specification rejects (C15); all: both."""
    if not cases:
        return 0
    ck.all_cases.extend(cases)
    files = vlib.run_driver(drv, cases, ck.workdir, label, nproc=nproc)
    mism, st = vlib.validate_traces(trace_module, files, env=env)
    ck.add_trace_stats(st, len(cases))
    ck.checker_cmds.append(f"TRACE=<events> tlc -config spec/{trace_module}.cfg spec/{trace_module}.tla")
    # a time-out may be the machine, not the code: such cases run once more, alone and with a long limit, before they count
    slow = [m for m in mism if str(m["event"].get("res", {}).get("crash", "")).startswith("timeout")]
    if slow and len(slow) <= 50:
        ids = {m["event"].get("id") for m in slow}
        again = [c for c in cases if c.get("id") in ids]
        files2 = vlib.run_driver(drv, again, ck.workdir, label + "_retry", nproc=4, case_timeout=60)
        mism2, _ = vlib.validate_traces(trace_module, files2, env=env)
        still = {m["event"].get("id") for m in mism2}
        mism = [m for m in mism if m not in slow or m["event"].get("id") in still]
        ck.extra["timeouts_retried"] = ck.extra.get("timeouts_retried", 0) + len(slow)
    n = 0
    for m in mism:
        ev = m["event"]
        exp = m["expect"]
        got = ev.get("res", {})
        if str(got.get("crash", "")).startswith("driver:"):
            ck.extra["skipped_unsupported"] = ck.extra.get("skipped_unsupported", 0) + 1      # combination the API rejects at compile time
            continue
        eok = bool(exp.get("ok"))
        if want == "valid" and not eok:
            continue
        if want == "invalid" and eok:
            continue
        kind = res_kind(exp, got)
        case = {k: v for k, v in ev.items() if k not in ("res", "e")}
        what = describe(case, kind) if describe else f"{case.get('op')} {kind}"
        ck.mismatch(case_key(case, kind), kind, case, exp, got, what=what, driver=os.path.basename(drv))
        n += 1
    return n


def replay_ops(rec, drv_name, trace_module="TraceOps", flags=()):
    case = dict(rec["case"])
    case.setdefault("id", 1)
    drv = vlib.build_driver(drv_name, flags=flags)
    wd = os.path.join(vlib.BUILD, "replay")
    os.makedirs(wd, exist_ok=True)
    files = vlib.run_driver(drv, [case], wd, "replay", nproc=1)
    mism, st = vlib.validate_traces(trace_module, files)
    ev = [json.loads(l) for l in open(files[0])][0]
    print("case:     ", canon(case))
    print("observed: ", canon(ev.get("res")))
    for m in mism:
        print("expected: ", canon(m["expect"]))
    print("replay:", "mismatch reproduced on the current tree" if mism else "no mismatch on the current tree")
    return 1 if mism else 0
