"""C14: functors, currying, composition and extraction are equivalent to direct views
(Functional.tla stack machine; Programs machine; drv_functional; TraceOps)."""
import json, os
import vlib
from vlib import Check
from checks import opslib, c10

OPS = ["transpose", "flip", "reshape", "tile", "reduce_add", "add", "roll", "expand_dims"]
RENAME = {"mix": "add", "reduce_mix": "reduce_add"}


DAG_EXPRS = ["softmax", "x_over_exp", "sum_over_exp", "exp_plus_exp", "sum_times_diff", "x_plus_x", "prod_plus_x", "exp_minus_expy", "yexp_minus_exp",
             "sum_plus_sum", "gated", "gated_r", "flat_tree", "deep_shared", "deep_shared_r",
             "cat_exp_exp", "cat_x_exp", "cat_exp_x", "flat_plus_flat", "matmul_xyT", "matmul_xxT", "cat_flat_sum_diff"]


def convert(p):
    prog = []
    for s in p["prog"]:
        if s["op"] == "pad": return None
        if s["op"] in ("flip", "expand_dims") and prog: return None     # these two do not compile on maybe-dimensioned operands / inside compositions
        prog.append(dict(s, op=RENAME.get(s["op"], s["op"])))
    return dict(leaf=p["leaf"], prog=prog)


def binary_after_view(case):
    """function composition / operands extracted from ufunc(view(a), b) do not reproduce the view (apply yields Nothing)"""
    ops = [s["op"] for s in case.get("prog", [])]
    return case.get("variant") == "extract" and any(op == "add" and i >= 1 for i, op in enumerate(ops))


AR = dict(u1=1, u2=1, b=2, t=3, swap=2, dup=1, dig2=3, bury2=3)
OUT = dict(u1=1, u2=1, b=1, t=1, swap=2, dup=2, dig2=3, bury2=3)


def _machine(comp, n):
    """final stack of the stack machine on leaves 0..n-1 (terms as nested tuples) and the true arity"""
    st = list(range(n))
    for f in reversed(comp):
        a, rest = st[:AR[f]], st[AR[f]:]
        if f == "swap": st = [a[1], a[0]] + rest
        elif f == "dup": st = [a[0], a[0]] + rest
        elif f == "dig2": st = [a[2], a[0], a[1]] + rest
        elif f == "bury2": st = [a[1], a[2], a[0]] + rest
        else: st = [(f,) + tuple(a)] + rest
    return st


def fstack_passes_operand_through(case):
    """the final stack contains an operand that no functor consumed (a combinator passed it through): over fixed-size operands the library hands
    back a pointer to a copy inside a temporary functor (use after scope: garbage or, by luck, the right values)"""
    if case.get("op") != "fstack": return False
    return any(isinstance(t, int) for t in _machine(case["comp"], len(case["shapes"])))


def tree_cases(start):
    """f(va(a), vb(b)): a binary ufunc over two leaves with a view on either side, as the view itself and through extraction"""
    import itertools
    out = []; n = start
    for f in ("add", "subtract"):
        for va, vb in itertools.product(("id", "transpose", "flatten"), repeat=2):
            sa = [2, 3]; sb = [2, 3]
            if va == "transpose" and vb != "transpose": sb = [3, 2] if vb == "id" else [2, 3]
            if vb == "transpose" and va != "transpose": sa = [3, 2] if va == "id" else [2, 3]
            if va == "flatten" and vb != "flatten": sb = [6] if vb == "id" else [6, 1]
            if vb == "flatten" and va != "flatten": sa = [6] if va == "id" else [6, 1]
            for variant in ("view", "extract"):
                n += 1
                out.append(dict(id=n, op="tree", shapes=[sa, sb], args=dict(f=f, va=va, vb=vb), variant=variant))
    return out


def chain3_cases(start):
    """f3(f2(f1(a))) over {negative, square, add b, subtract b}: depth-3 view types (and compositions of three functors) in the quick tier"""
    import itertools
    out = []; n = start
    for ops in itertools.product(("negative", "square", "add_b", "sub_b"), repeat=3):
        for variant in ("view", "extract"):
            n += 1
            out.append(dict(id=n, op="chain3", shapes=[[2, 3], [3]], data=[[1, 2, 3, 4, 5, 6], [2, 1, 3]], args=dict(ops=list(ops)), variant=variant))
    return out


def chain3_extract_after_binary(case):
    """extraction of a chain whose first or second step is a binary ufunc followed by further steps (same root as c14_extract_binary_after_view)"""
    return case.get("op") == "chain3" and case.get("variant") == "extract" and any(o.endswith("_b") for o in case["args"]["ops"][1:]) 


def tree_extract_over_view(case):
    """extraction (get_function_composition / get_function_operands + apply) of a binary ufunc whose second operand is a view"""
    return case.get("op") == "tree" and case.get("variant") == "extract" and case["args"]["vb"] != "id"


def run(tier, seed):
    ck = Check("C14", tier, seed)
    ck.preds["c14_tree_extract_over_view"] = tree_extract_over_view
    quick = tier == "quick"
    maxd = 2 if quick else 3
    ck.add_mc(vlib.tlc_model_check("Functional", "MC_Functional_" + tier, workers=8, timeout=2400))
    ck.add_mc(vlib.tlc_model_check("Programs", "MC_Programs_quick", timeout=2400))
    progs = [convert(p) for p in c10.export_programs(tier)]
    progs = [p for p in progs if p and len(p["prog"]) <= maxd]
    if not quick:
        ck.rng.shuffle(progs); progs = progs[:4000]
    specs = [dict(name="drv_functional", flags=(f"-DMAXD={maxd}", f"-DFIRST_IDX={i}", "-O0"), tag=f"_d{maxd}_{i}") for i in range(len(OPS))]
    bins = vlib.build_drivers(specs)
    by_first = {i: [] for i in range(len(OPS))}
    n = 0
    for p in progs:
        d = len(p["prog"])
        variants = [("program", "view"), ("program", "oneshot"), ("program", "curry"), ("program", "extract"), ("program_operands", "operands"), ("program_graph", "graph")]
        if d >= 2: variants += [("program", "regroup_l"), ("program", "regroup_r")]
        for op, v in variants:
            n += 1
            by_first[OPS.index(p["prog"][0]["op"])].append(dict(id=n, op=op, shapes=[p["leaf"]], prog=p["prog"], variant=v, args=dict(none=True)))
    for i, cases in by_first.items():
        if cases:
            opslib.run_ops(ck, bins[i], cases, want="all", label=f"fn{i}", nproc=max(2, vlib.NCPU // 3),
                           describe=lambda c, k: f"functional {'*'.join(s['op'] for s in reversed(c['prog']))} [{c['variant']}]: {k}")
    cc = chain3_cases(n); n += len(cc)
    opslib.run_ops(ck, bins[0], cc, want="all", label="chain3", nproc=4, describe=lambda c, k: f"{'('.join(reversed(c['args']['ops']))}(a) [{c['variant']}]: {k}")
    ck.extra["chain3_cases"] = len(cc)
    tc = tree_cases(n); n += len(tc)
    opslib.run_ops(ck, bins[0], tc, want="all", label="tree", nproc=4, describe=lambda c, k: f"{c['args']['f']}({c['args']['va']}(a), {c['args']['vb']}(b)) [{c['variant']}]: {k}")
    ck.extra["tree_cases"] = len(tc)
    # compute graphs of expressions that are DAGs (shared leaves / shared sub-expressions): exact node and edge sets (ComputeGraph.tla)
    ck.add_mc(vlib.tlc_model_check("MC_ComputeGraph", "MC_ComputeGraph" if quick else "MC_ComputeGraph_thorough", workers=8, timeout=2400))
    gbin = vlib.build_driver("drv_graph", flags=("-O0",))
    gc = []
    for name in DAG_EXPRS:
        n += 1; gc.append(dict(id=n, op="graph_dag", name=name, shapes=[]))
    opslib.run_ops(ck, gbin, gc, want="all", label="graph_dag", nproc=4, describe=lambda c, k: f"compute graph of the expression '{c['name']}' (a leaf or sub-expression with several consumers): {k}")
    ck.extra["dag_graph_cases"] = len(gc)
    # combinators: compositions over {negative, square, subtract, where, swap, dup, dig2, bury2} under every named operand split and both groupings
    names = ["u1", "u2", "b", "t", "swap", "dup", "dig2", "bury2"]
    stab = vlib.tlc_generate("GenStack", "GenStack_" + tier)
    sbins = vlib.build_drivers([dict(name="drv_stack", flags=(f"-DMAXD={2 if quick else 3}", f"-DFIRST_IDX={i}", "-O0"), tag=f"_d{2 if quick else 3}_{i}") for i in range(len(names))])
    sby = {i: [] for i in range(len(names))}
    for c in stab:
        n += 1
        sby[names.index(c["comp"][0])].append(dict(c, id=n))
    for i, cases in sby.items():
        if cases:
            opslib.run_ops(ck, sbins[i], cases, want="all", label=f"stack{i}", nproc=4,
                           describe=lambda c, k: f"composition {'*'.join(c['comp'])} applied with split '{c['split']}' ({c['group']} grouping): {k}")
    ck.extra["combinator_compositions"] = len({vlib.canon(c["comp"]) for c in stab})
    ck.extra["combinator_cases"] = len(stab)
    ck.nontrivial_count = len({vlib.canon([p["leaf"], p["prog"]]) for p in progs if len(p["prog"]) >= 2}) + len({vlib.canon(c["comp"]) for c in stab if len(c["comp"]) >= 2})
    ck.rule = ("programs = the chains of the program machine (depth <= 2, thorough <= 3) over transpose, flip, reshape, tile, reduce_add, add with a second leaf (binary functor in any position), roll, expand_dims; "
               "for each: the direct view, the composed functor applied to all operands at once, applied one operand at a time (currying), both groupings of the composition "
               "(f3*f2)*f1 / f3*(f2*f1) resp. (f2*f1)(a..) / f2(f1(a),..), the extracted composition applied to the extracted operands, the identity (addresses) and order of the extracted operands, "
               "and the compute graph (leaf count, unique ids, in-degree = listed operands, node accounting); all validated by TLC against the program's denotation; "
               "compute graphs of 22 DAG expressions (ufunc and generic extraction paths) (a leaf or a sub-expression with several consumers, either operand order, nested sharing): exact node and edge sets against ComputeGraph.tla (terms recorded from the constructed views' own ids); "
               "binary ufuncs over two leaves with a view (identity / transpose / flatten) on either side, directly and through extraction; "
               "combinators: every composition of <= 2 (thorough 3) functors over {negative, square, subtract, where, swap, dup, dig2, bury2} with arity 1..5 (TLC export from StackMachine.tla), applied all at once, "
               "one operand at a time, (1, n-1), (n-1, 1), (n/2, rest), left and right grouping; the resulting stack (one array or a tuple) must be the stack machine's, interpreted on the operand values")
    ck.exhaustive = quick
    ck.extra.update(programs=len(progs), depth=maxd)
    ck.assumptions += ["conv/pooling/norm functors are not driven",
                       "compute-graph checks of the chain programs are structural (node accounting, ids, in-degrees; composite views may contribute several function nodes), exact node / edge sets are checked for the DAG expression menu"]
    for p in progs[:3]: ck.sample(p)
    return ck.finish()


def replay(rec):
    case = dict(rec["case"]); case["id"] = 1
    if case.get("op") == "graph_dag":
        return opslib.replay_ops(rec, "drv_graph", flags=("-O0",))
    if case.get("op") in ("tree", "chain3"):
        return opslib.replay_ops(rec, "drv_functional", flags=("-DMAXD=2", "-DFIRST_IDX=0", "-O0"))
    if case.get("op") == "fstack":
        names = ["u1", "u2", "b", "t", "swap", "dup", "dig2", "bury2"]
        d = max(2, len(case["comp"])); i = names.index(case["comp"][0])
        drv = vlib.build_driver("drv_stack", flags=(f"-DMAXD={d}", f"-DFIRST_IDX={i}", "-O0"), tag=f"_d{d}_{i}")
        wd = os.path.join(vlib.BUILD, "replay"); os.makedirs(wd, exist_ok=True)
        files = vlib.run_driver(drv, [case], wd, "replay", nproc=1)
        mism, st = vlib.validate_traces("TraceOps", files)
        ev = [json.loads(l) for l in open(files[0])][0]
        print("composition:", "*".join(case["comp"]), "split", case["split"], "grouping", case["group"]); print("observed:", vlib.canon(ev.get("res")))
        for m in mism: print("expected:", vlib.canon(m["expect"]))
        print("replay:", "mismatch reproduced on the current tree" if mism else "no mismatch on the current tree")
        return 1 if mism else 0
    i = OPS.index(case["prog"][0]["op"]); maxd = max(2, len(case["prog"]))
    drv = vlib.build_driver("drv_functional", flags=(f"-DMAXD={maxd}", f"-DFIRST_IDX={i}", "-O0"), tag=f"_d{maxd}_{i}")
    wd = os.path.join(vlib.BUILD, "replay"); os.makedirs(wd, exist_ok=True)
    files = vlib.run_driver(drv, [case], wd, "replay", nproc=1)
    mism, st = vlib.validate_traces("TraceOps", files)
    ev = [json.loads(l) for l in open(files[0])][0]
    print("program:", vlib.canon(case["prog"]), "variant", case["variant"]); print("observed:", vlib.canon(ev.get("res")))
    for m in mism: print("expected:", vlib.canon(m["expect"]))
    print("replay:", "mismatch reproduced on the current tree" if mism else "no mismatch on the current tree")
    return 1 if mism else 0
