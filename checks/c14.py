"""C14: functors, currying, composition and extraction are equivalent to direct views
(Functional.tla stack machine; Programs machine; drv_functional; TraceOps)."""
import json, os
import vlib
from vlib import Check
from checks import opslib, c10

OPS = ["transpose", "flip", "reshape", "tile", "reduce_add", "add", "roll", "expand_dims"]
RENAME = {"mix": "add", "reduce_mix": "reduce_add"}


def convert(p):
    prog = []
    for s in p["prog"]:
        if s["op"] == "pad": return None
        if s["op"] in ("flip", "expand_dims") and prog: return None     # these two do not compile on maybe-dimensioned operands / inside compositions
        prog.append(dict(s, op=RENAME.get(s["op"], s["op"])))
    return dict(leaf=p["leaf"], prog=prog)


def binary_after_view(case):
    """function composition / operands extracted from ufunc(view(a), b) do not reproduce the view (apply yields Nothing)"""
    ops = [s["op"] for s in case.get("prog", [])]
    return case.get("variant") == "extract" and any(op == "add" and i >= 1 for i, op in enumerate(ops))


def run(tier, seed):
    ck = Check("C14", tier, seed)
    ck.preds["c14_extract_binary_after_view"] = binary_after_view
    quick = tier == "quick"
    maxd = 2 if quick else 3
    ck.add_mc(vlib.tlc_model_check("Functional", "MC_Functional_" + tier, workers=8, timeout=2400))
    ck.add_mc(vlib.tlc_model_check("Programs", "MC_Programs_quick", timeout=2400))
    progs = [convert(p) for p in c10.export_programs(tier)]
    progs = [p for p in progs if p and len(p["prog"]) <= maxd]
    if not quick:
        ck.rng.shuffle(progs); progs = progs[:4000]
    specs = [dict(name="drv_functional", flags=(f"-DMAXD={maxd}", f"-DFIRST_IDX={i}", "-O0"), tag=f"_d{maxd}_{i}") for i in range(len(OPS))]
    bins = vlib.build_drivers(specs)
    by_first = {i: [] for i in range(len(OPS))}
    n = 0
    for p in progs:
        d = len(p["prog"])
        variants = [("program", "view"), ("program", "oneshot"), ("program", "curry"), ("program", "extract"), ("program_operands", "operands"), ("program_graph", "graph")]
        if d >= 2: variants += [("program", "regroup_l"), ("program", "regroup_r")]
        for op, v in variants:
            n += 1
            by_first[OPS.index(p["prog"][0]["op"])].append(dict(id=n, op=op, shapes=[p["leaf"]], prog=p["prog"], variant=v, args=dict(none=True)))
    for i, cases in by_first.items():
        if cases:
            opslib.run_ops(ck, bins[i], cases, want="all", label=f"fn{i}", nproc=max(2, vlib.NCPU // 3),
                           describe=lambda c, k: f"functional {'*'.join(s['op'] for s in reversed(c['prog']))} [{c['variant']}]: {k}")
    ck.nontrivial_count = len({vlib.canon([p["leaf"], p["prog"]]) for p in progs if len(p["prog"]) >= 2})
    ck.rule = ("programs = the chains of the program machine (depth <= 2, thorough <= 3) over transpose, flip, reshape, tile, reduce_add, add with a second leaf (binary functor in any position), roll, expand_dims; "
               "for each: the direct view, the composed functor applied to all operands at once, applied one operand at a time (currying), both groupings of the composition "
               "(f3*f2)*f1 / f3*(f2*f1) resp. (f2*f1)(a..) / f2(f1(a),..), the extracted composition applied to the extracted operands, the identity (addresses) and order of the extracted operands, "
               "and the compute graph (leaf count, unique ids, in-degree = listed operands, node accounting); all validated by TLC against the program's denotation")
    ck.exhaustive = quick
    ck.extra.update(programs=len(progs), depth=maxd)
    ck.assumptions += ["combinators swap/dup/dig/bury are checked at the design level (Functional.tla) only; conv/pooling/norm functors are not driven",
                       "compute-graph checks are structural (node accounting, ids, in-degrees), composite views may contribute several function nodes"]
    for p in progs[:3]: ck.sample(p)
    return ck.finish()


def replay(rec):
    case = dict(rec["case"]); case["id"] = 1
    i = OPS.index(case["prog"][0]["op"]); maxd = max(2, len(case["prog"]))
    drv = vlib.build_driver("drv_functional", flags=(f"-DMAXD={maxd}", f"-DFIRST_IDX={i}", "-O0"), tag=f"_d{maxd}_{i}")
    wd = os.path.join(vlib.BUILD, "replay"); os.makedirs(wd, exist_ok=True)
    files = vlib.run_driver(drv, [case], wd, "replay", nproc=1)
    mism, st = vlib.validate_traces("TraceOps", files)
    ev = [json.loads(l) for l in open(files[0])][0]
    print("program:", vlib.canon(case["prog"]), "variant", case["variant"]); print("observed:", vlib.canon(ev.get("res")))
    for m in mism: print("expected:", vlib.canon(m["expect"]))
    print("replay:", "mismatch reproduced on the current tree" if mism else "no mismatch on the current tree")
    return 1 if mism else 0
