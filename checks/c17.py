"""C17: neural-network routines equal their reference definitions (NN.tla / MC_NN / TraceOps / drv_nn)."""
import itertools
import vlib
from vlib import Check
from checks import opslib


def prod(s):
    p = 1
    for x in s: p *= x
    return p


def conv_out(n, k, s, p, d):
    num = n + 2 * p - d * (k - 1) - 1
    return num // s + 1 if num >= 0 else 0


def data_for(shapes):
    return [[(17 * j + p) % 23 + 1 + j for p in range(prod(s))] if j else [p + 1 for p in range(prod(s))] for j, s in enumerate(shapes)]


CH = [(1, 1, 1), (2, 1, 2), (2, 2, 2), (4, 2, 2), (4, 2, 4), (3, 3, 3), (4, 4, 4), (4, 1, 1), (3, 1, 2)]


def conv_cases(spatial2, spatial1, full):
    out = []
    i = 0
    for (H, W) in spatial2:
        for kh, kw in itertools.product((1, 2, 3), repeat=2):
            for (sh, sw) in ((1, 1), (2, 2), (3, 3), (1, 2), (2, 1), (3, 1)):
                for (ph, pw) in ((0, 0), (1, 1), (2, 2), (0, 1), (2, 0)):
                    for (dh, dw) in ((1, 1), (2, 2), (1, 2)):
                        if conv_out(H, kh, sh, ph, dh) < 1 or conv_out(W, kw, sw, pw, dw) < 1: continue
                        i += 1
                        if not full and i % 3: continue
                        j = len(out)
                        cin, g, cout = CH[j % len(CH)]
                        n = 1 + ((j // 2) % 2)
                        bias = bool((j // 4) % 2)
                        shapes = [[n, cin, H, W], [cout, cin // g, kh, kw]] + ([[cout]] if bias else [])
                        uniform = sh == sw and ph == pw and dh == dw
                        form = "int" if (uniform and j % 3 == 0) else "vec"
                        out.append(dict(op="conv2d", shapes=shapes, data=data_for(shapes),
                                        args=dict(stride=[sh, sw], padding=[ph, pw], dilation=[dh, dw], groups=g, bias=bias, form=form)))
    for L in spatial1:
        for k in (1, 2, 3):
            for s in (1, 2, 3):
                for p in (0, 1, 2):
                    for d in (1, 2):
                        if conv_out(L, k, s, p, d) < 1: continue
                        for (cin, g, cout) in CH:
                            i += 1
                            if not full and i % 2: continue
                            j = len(out)
                            n = 1 + ((j // 2) % 2); bias = bool((j // 4) % 2)
                            shapes = [[n, cin, L], [cout, cin // g, k]] + ([[cout]] if bias else [])
                            out.append(dict(op="conv1d", shapes=shapes, data=data_for(shapes),
                                            args=dict(stride=[s], padding=[p], dilation=[d], groups=g, bias=bias, form="vec")))
    # defaults (None arguments)
    for shapes in ([[1, 2, 4, 4], [3, 2, 2, 2]], [[2, 1, 3, 5], [2, 1, 3, 3], [2]]):
        out.append(dict(op="conv2d", shapes=shapes, data=data_for(shapes), args=dict(stride=[1, 1], padding=[0, 0], dilation=[1, 1], groups=1, bias=len(shapes) == 3, form="def")))
    return out


def fact(n):
    return [1, 1, 2, 6, 24][n]


def pool_cases(spatial, full):
    out = []
    for (H, W) in spatial:
        for kh, kw in itertools.product((1, 2, 3), repeat=2):
            if kh > H or kw > W: continue
            for sh, sw in itertools.product((1, 2, 3), repeat=2):
                for ceil in (False, True):
                    for lead in ([], [2], [1, 2]):
                        if not full and lead == [1, 2] and (kh + kw + sh) % 2: continue
                        shapes = [lead + [H, W]]
                        for op in ("max_pool2d", "avg_pool2d"):
                            out.append(dict(op=op, shapes=shapes, data=data_for(shapes), args=dict(kernel=[kh, kw], stride=[sh, sw], ceil=ceil, mul=fact(kh) * fact(kw))))
    return out


def linear_cases():
    out = []
    for lead in ([], [2], [2, 3], [1, 2, 2]):
        for fin in (1, 2, 4):
            for fout in (1, 3):
                for bias in (False, True):
                    shapes = [lead + [fin], [fout, fin]] + ([[fout]] if bias else [])
                    out.append(dict(op="linear", shapes=shapes, data=data_for(shapes), args=dict(bias=bias)))
    return out


def ceil_overhang_start(c):
    """pooling in ceil mode where the standard formula drops the last window because it would start outside the input"""
    if c["op"] not in ("max_pool2d", "avg_pool2d") or not c["args"]["ceil"]: return False
    H, W = c["shapes"][0][-2:]; (kh, kw) = c["args"]["kernel"]; (sh, sw) = c["args"]["stride"]
    def dropped(n, k, s):
        o = -(-(n - k) // s) + 1
        return (o - 1) * s >= n
    return dropped(H, kh, sh) or dropped(W, kw, sw)


def conv_batch(c):
    return c["op"] in ("conv1d", "conv2d") and c["shapes"][0][0] > 1


def conv_groups_blocks(c):
    """groups > 1 with more than one output channel per group: PyTorch assigns contiguous blocks of output channels to a group"""
    if c["op"] not in ("conv1d", "conv2d"): return False
    g = c["args"]["groups"]; O = c["shapes"][1][0]
    return g > 1 and O // g > 1


def conv_unequal_dilation(c):
    return c["op"] == "conv2d" and len(set(c["args"]["dilation"])) > 1


REAL_OPS = ("softmax", "softmin", "batch_norm", "layer_norm", "instance_norm", "group_norm", "bilinear", "pairwise_distance", "cosine_similarity")


PREDS = dict()


def real_cases(ck, tier):
    """Real-valued routines on small integer data (fixed-point reference in NNReal.tla); tol in units of 1/1024."""
    r = ck.rng; out = []
    quick = tier == "quick"
    def vals(n, lo, hi): return [r.randint(lo, hi) for _ in range(n)]
    def C(op, shapes, data, **args): out.append(dict(op=op, shapes=shapes, data=data, args=args))
    reps = 2 if quick else 8
    for _ in range(reps):
        for s in ([4], [2, 3], [2, 3, 2], [1, 5], [3, 1, 2]):
            for ax in range(-len(s), len(s)):
                for op in ("softmax", "softmin"):
                    C(op, [s], [vals(prod(s), -4, 4)], axis=ax, tol=3)
        for s, c in (([1, 2, 2, 2], 2), ([2, 3, 2, 2], 3), ([2, 1, 3, 2], 1), ([3, 2, 2], 3), ([2, 4, 1, 3], 4)):
            C("batch_norm", [s, [c], [c], [c], [c]], [vals(prod(s), -5, 5), vals(c, -2, 2), [r.choice([1, 4, 9, 16]) for _ in range(c)], vals(c, -2, 3), vals(c, -2, 2)], tol=3)
        for s, w in (([2, 3, 4], [4]), ([2, 3, 4], [3, 4]), ([2, 3], [3]), ([5], [5]), ([2, 2, 3, 2], [3, 2]), ([2, 2, 3, 2], [2, 3, 2])):
            C("layer_norm", [s, w, w], [vals(prod(s), -5, 5), vals(prod(w), -2, 3), vals(prod(w), -2, 2)], tol=48)
        for s, nd in (([2, 3, 4], 1), ([1, 2, 5], 1), ([1, 2, 2, 3], 2), ([2, 3, 2, 2], 2), ([3, 2, 2], 2)):
            c = s[len(s) - nd - 1]
            C("instance_norm", [s, [c], [c]], [vals(prod(s), -5, 5), vals(c, -2, 3), vals(c, -2, 2)], nd=nd, tol=48)
        for s in ([1, 2, 2, 2], [2, 4, 2, 1], [2, 4, 3], [1, 6, 2], [2, 3, 2, 2]):
            c = s[1]
            for G in [d for d in range(1, c + 1) if c % d == 0]:
                if (c // G) * prod(s[2:]) > 12: continue
                C("group_norm", [s, [c], [c]], [vals(prod(s), -5, 5), vals(c, -2, 3), vals(c, -2, 2)], groups=G, tol=48)
        for b, i1, i2, o in (([2], 2, 3, 2), ([3], 3, 2, 1), ([2, 2], 2, 2, 3), ([1], 1, 4, 2), ([], 3, 3, 2)):
            for bias in (False, True):
                if not b: continue          # the batch axes are required by the view
                shapes = [b + [i1], b + [i2], [o, i1, i2]] + ([[o]] if bias else [])
                C("bilinear", shapes, [vals(prod(x), -3, 3) for x in shapes], bias=bias)
        for s in ([3, 4], [2, 3, 2], [5], [1, 3], [2, 2, 2, 2]):
            for kd in (False, True):
                C("pairwise_distance", [s, s], [vals(prod(s), -4, 4), vals(prod(s), -4, 4)], keepdims=kd, tol=8)
            for ax in range(-len(s), len(s)):
                a = vals(prod(s), -4, 4); b = vals(prod(s), -4, 4)
                C("cosine_similarity", [s, s], [[v or 1 for v in a], [v or 2 for v in b]], axis=ax, tol=8)
    return out


def run(tier, seed):
    ck = Check("C17", tier, seed)
    quick = tier == "quick"
    ck.preds.update(PREDS)      # no open findings
    ck.add_mc(vlib.tlc_model_check("MC_NN", "MC_NN_" + tier, timeout=2400))
    if quick:
        tab = conv_cases([(3, 3), (4, 3), (2, 4)], [1, 2, 3, 4], False) + pool_cases([(3, 3), (4, 3), (2, 4), (4, 4)], False) + linear_cases()
    else:
        tab = conv_cases([(3, 3), (4, 3), (2, 4), (5, 5), (7, 4), (1, 6), (6, 7)], [1, 2, 3, 4, 5, 6, 7], True) + pool_cases([(h, w) for h in range(1, 8) for w in range(1, 8) if h * w <= 30], True) + linear_cases()
    cases = opslib.number(tab)
    drv = vlib.build_driver("drv_nn")
    opslib.run_ops(ck, drv, cases, want="valid", label="nn", describe=lambda c, k: f"{c['op']} {k}")
    rc = opslib.number(real_cases(ck, tier), start=len(cases))
    opslib.run_ops(ck, vlib.build_driver("drv_nnreal"), rc, want="valid", label="nnreal", describe=lambda c, k: f"{c['op']} {k}")
    cases += rc
    ck.extra["real_valued_cases"] = len(rc)
    ck.nontrivial_count = len({vlib.canon([c["op"], c["shapes"], c["args"]]) for c in cases})
    ck.rule = ("cases = conv2d/conv1d over kernels 1..3, strides 1..3 (equal and unequal per axis), zero padding 0..2, dilation 1..2, channel/group configurations with every divisor as groups, "
               "batch 1..2, bias on/off, arguments as lists, scalars and defaults, all combinations with a positive output size (quick: every third); max/avg pooling over kernels 1..3, strides 1..3, "
               "ceil mode on/off with overhanging windows, 2..4-d inputs; linear with/without bias; integer data, every sum exact; avg pooling compared after scaling by kh!*kw!; "
               "real-valued routines on small integer data against the fixed-point reference of NNReal.tla (values x 1024, tolerance 3 for softmax/softmin over every axis and batch_norm with square variances, "
               "48 for layer/instance/group normalisation (integer square root with 8 fractional bits), 8 for pairwise_distance / cosine_similarity; bilinear exact)")
    ck.exhaustive = True
    ck.assumptions += ["the real-valued routines are decided in fixed point: exp from a table of mathematical constants, sqrt from an integer square root; the tolerance (<= 4.7 % of one unit) separates wiring defects (wrong axis, wrong channel, wrong group) but not accuracy defects, which this family does not decide",
                       "the eps terms (1e-5 .. 1e-8) are below the tolerance on the data of the scope"]
    for c in cases[:2] + cases[-2:]: ck.sample({k: v for k, v in c.items() if k != "data"})
    return ck.finish()


def replay(rec):
    return opslib.replay_ops(rec, "drv_nnreal" if rec["case"].get("op") in REAL_OPS else "drv_nn")
