"""C06: broadcasting (Broadcast.tla / MC_Broadcast / TraceOps / drv_broadcast)."""
import vlib
from vlib import Check
from checks import opslib

FAMS = ["pairs", "triples", "to", "arrays"]
KINDS = ["vec", "veci", "sv", "utlvec"]


def load_cases(tier):
    cases = []
    for f in FAMS:
        cases += vlib.tlc_generate("GenBroadcast", "GenBroadcast_" + tier, env={"FAM": f}, key_extra=f, timeout=1400)
    return cases


def seeded(ck, n):
    r = ck.rng
    out = []
    for _ in range(n):
        d = r.randint(1, 8)
        base = [r.randint(1, 6) for _ in range(d)]
        k = r.choice([2, 2, 3, 4])
        shapes = []
        for _ in range(k):
            dd = r.randint(1, d)
            s = [1 if r.random() < 0.35 else x for x in base[d - dd:]]
            if r.random() < 0.12:
                s[r.randrange(len(s))] += 1        # make it (probably) incompatible
            shapes.append(s)
        out.append(dict(op="broadcast_shape", shapes=shapes, args=dict(none=True), cfg=r.choice(KINDS)))
        if d <= 5:
            p = 1
            for x in base: p *= x
            if p <= 700:
                out.append(dict(op="broadcast_to", shapes=[shapes[0]], args=dict(dst=base)))
                if k <= 3 and all(len(s) >= 1 for s in shapes):
                    out.append(dict(op="broadcast_arrays", shapes=shapes[:3], args=dict(none=True)))
    return out


def run(tier, seed):
    ck = Check("C06", tier, seed)
    ck.add_mc(vlib.tlc_model_check("MC_Broadcast", "MC_Broadcast_" + tier, timeout=2400))
    table = load_cases(tier)
    cases = expand(table, seed)
    extra = seeded(ck, 1500 if tier == "quick" else 15000)
    cases = opslib.number(cases + extra)
    drv = vlib.build_driver("drv_broadcast")
    # C06 states the failure criterion itself ("succeeds exactly when ..."): accepted incompatible shapes are C06 violations too
    opslib.run_ops(ck, drv, cases, want="all", label="bcast", describe=lambda c, k: f"{c['op']} {k}")
    return finish(ck, cases, table, extra)


def expand(table, seed):
    """every table case of broadcast_shape runs under the default container, a rotating one of the other dynamic kinds, and the fixed-dimension kinds"""
    cases = []
    for i, c in enumerate(table):
        if c["op"] == "broadcast_shape":
            cases.append(dict(c, cfg="vec"))
            if all(len(s) > 0 for s in c["shapes"]):
                cases.append(dict(c, cfg=KINDS[1 + (i + seed) % 3]))
                # fixed-dimension containers (std::array) take a different, unrolled code path
                if all(len(s) <= (4 if len(c["shapes"]) == 2 else 3) for s in c["shapes"]) and len(c["shapes"]) <= 3:
                    cases.append(dict(c, cfg="arr"))
                if len(c["shapes"]) == 2 and len(c["shapes"][0]) <= 4:
                    cases.append(dict(c, cfg="arr_vec"))
        else:
            cases.append(c)
    return cases


def finish(ck, cases, table, extra):
    ck.nontrivial_count = len({vlib.canon([c["op"], c["shapes"], c["args"]]) for c in cases if len(c["shapes"]) >= 2 and c["shapes"][0] != c["shapes"][1]})
    ck.rule = ("cases = TLC export of all pairs of shapes of dim 0..D, extents 1..E and all triples of dim 1..D3, extents 1..E3 "
               "(quick D=E=3, D3=2,E3=3; thorough D=E=4, D3=E3=3), compatible and incompatible, for broadcast_shape (std::vector of size_t / int, static_vector, utl::vector, std::array of every dimension, and array-with-vector), "
               "shape_broadcast_to, view::broadcast_to and view::broadcast_arrays (every element), plus seeded shapes of dim <= 8 with 2..4 operands; "
               "non-trivial = distinct cases whose first two operand shapes differ")
    ck.exhaustive = True
    ck.extra.update(table_cases=len(table), seeded_cases=len(extra))
    ck.assumptions += ["mixed compile-time/run-time shape containers are covered by C09",
                       "incompatible shapes are part of this property's statement: acceptance of an incompatible combination is reported here (and under C15)"]
    for c in cases[:2] + cases[-2:]: ck.sample(c)
    return ck.finish()


def replay(rec):
    return opslib.replay_ops(rec, "drv_broadcast")
