"""C10: eager evaluation returns exactly the lazy view; composition is unobservable
(Programs.tla / Denote / TraceOps / drv_program compiled per first operation)."""
import json, os
import vlib
from vlib import Check
from checks import opslib

OPS = ["transpose", "flip", "reshape", "tile", "reduce_mix", "mix", "roll", "expand_dims", "pad"]
SMALL = 6


def export_programs(tier):
    cfg = f"GenPrograms_{tier}"
    key = vlib.spec_hash("Programs", cfg)[:16]
    path = os.path.join(vlib.GEN, f"{cfg}.{key}.ndjson")
    if not os.path.exists(path):
        extra = ("-simulate", "num=4000", "-depth", "4") if tier == "thorough" else ()
        r = vlib.tlc("Programs", cfg, workers=1, timeout=1400, extra=extra)
        ps = {}
        for line in r["out"].splitlines():
            line = line.strip()
            if line.startswith('"{'):
                p = json.loads(json.loads(line))
                ps[vlib.canon(p)] = p
        if not ps:
            raise vlib.Inconclusive("program export failed: " + r["out"][-1500:])
        with open(path + ".tmp", "w") as f:
            for p in ps.values(): f.write(json.dumps(p, separators=(",", ":")) + "\n")
        os.replace(path + ".tmp", path)
        vlib.log(f"[gen] {cfg}: {len(ps)} programs, {r['wall']:.1f}s")
    return [json.loads(l) for l in open(path)]


def compilable(prog, maxd):
    if len(prog) > maxd: return False
    for lvl, st in enumerate(prog):
        if lvl >= 2 and OPS.index(st["op"]) >= SMALL: return False
    return True


def build_all(maxd):
    specs = [dict(name="drv_program", flags=(f"-DMAXD={maxd}", f"-DFIRST_IDX={i}", "-O0"), tag=f"_d{maxd}_{i}") for i in range(len(OPS))]
    return vlib.build_drivers(specs)


def run(tier, seed):
    ck = Check("C10", tier, seed)
    quick = tier == "quick"
    maxd = 2 if quick else 3
    ck.add_mc(vlib.tlc_model_check("Programs", "MC_Programs_quick" if quick else "MC_Programs_quick", timeout=2400))
    progs = [p for p in export_programs(tier) if compilable(p["prog"], maxd)]
    if not quick:
        ck.rng.shuffle(progs)
        progs = progs[:6000]
    bins = build_all(maxd)
    by_first = {i: [] for i in range(len(OPS))}
    n = 0
    for p in progs:
        d = len(p["prog"])
        variants = ["lazy", "eval_c", "eval_f", "into", "into_wrong"] + [f"staged{k}" for k in range(1, d)]
        for v in variants:
            n += 1
            by_first[OPS.index(p["prog"][0]["op"])].append(dict(id=n, op="program", shapes=[p["leaf"]], prog=p["prog"], variant=v, args=dict(none=True)))
    for i, cases in by_first.items():
        if cases:
            opslib.run_ops(ck, bins[i], cases, want="all", label=f"prog{i}", nproc=max(2, vlib.NCPU // 3),
                           describe=lambda c, k: f"program {'>'.join(s['op'] for s in c['prog'])} [{c['variant']}]: {k}")
    ck.nontrivial_count = len({vlib.canon([p["leaf"], p["prog"]]) for p in progs if len(p["prog"]) >= 2})
    ck.rule = ("programs = every chain of up to 2 operations (thorough: TLC-simulated chains of up to 3) of the alphabet transpose, flip, reshape, tile, reduce(mix), broadcast mix with a second leaf, "
               "roll, expand_dims, pad, with arguments chosen by the program machine from the shape of the intermediate result (invalid steps included: Nothing must propagate), over the leaf shapes of the "
               "model; every program runs as lazy element access, eval with the row-major and the column-major resolver, eval into a caller-supplied output of the right shape, eval into one of the reversed shape (same dimension and element count: it must stay untouched or become the view) and staged after every prefix; all are "
               "validated by TLC against the same denotation, so fused = staged = lazy = eager; non-trivial = distinct programs of depth >= 2")
    ck.exhaustive = quick
    ck.extra.update(programs=len(progs), depth=maxd)
    ck.assumptions += ["result storage inferred as fixed or bounded (compile-time shapes) is covered by C11's stanzas, not here: all operands are dynamic arrays",
                       "array::fn(args) eager entry points are exercised for the single operations only through eval(view) (same evaluator)"]
    for p in progs[:3]: ck.sample(p)
    return ck.finish()


def replay(rec):
    case = dict(rec["case"]); case["id"] = 1
    i = OPS.index(case["prog"][0]["op"]); maxd = max(2, len(case["prog"]))
    drv = vlib.build_driver("drv_program", flags=(f"-DMAXD={maxd}", f"-DFIRST_IDX={i}", "-O0"), tag=f"_d{maxd}_{i}")
    import os
    wd = os.path.join(vlib.BUILD, "replay"); os.makedirs(wd, exist_ok=True)
    files = vlib.run_driver(drv, [case], wd, "replay", nproc=1)
    mism, st = vlib.validate_traces("TraceOps", files)
    ev = [json.loads(l) for l in open(files[0])][0]
    print("program:", vlib.canon(case["prog"]), "variant", case["variant"]); print("observed:", vlib.canon(ev.get("res")))
    for m in mism: print("expected:", vlib.canon(m["expect"]))
    print("replay:", "mismatch reproduced on the current tree" if mism else "no mismatch on the current tree")
    return 1 if mism else 0
