"""C11: statically inferred shape, size and bounds agree with every run-time instance
(StaticInfo.tla abstract domain; drv_static over leaf kinds x compile-time-argument programs; TraceStatic)."""
import itertools, json, os
import vlib
from vlib import Check, canon

OPS = ["transpose", "flatten", "flip", "sum", "add_self", "tile", "expand_dims", "reshape", "take", "concat_self", "atleast_nd"]
VARIANTS = {"transpose": [0], "flatten": [0], "flip": [0, 1], "sum": [0, 1, 2], "add_self": [0], "tile": [0, 1, 2, 3], "expand_dims": [0], "reshape": [0], "take": [0], "concat_self": [0, 1], "atleast_nd": [0, 1]}
# run-time shapes each leaf kind admits (all of them within the bound)
KIND_SHAPES = {
    "dyn": [[2, 3], [4], [2, 1, 2], [3, 3]],
    "const23": [[2, 3]],
    "fixdim2": [[2, 3], [3, 1], [1, 4], [3, 3]],
    "bounddim3": [[2, 3], [4], [2, 1, 2]],
    "clip33": [[a, b] for a in (1, 2, 3) for b in (1, 2, 3)],
    "boundsize6": [[2, 3], [3, 2], [1, 6], [6, 1], [2, 2], [1, 1]],
    # a tuple of clipped extents whose bounds decrease (every view composes with it): an extent may exceed the bound of a later axis
    "clip62t": [[a, b] for a in (1, 3, 4, 6) for b in (1, 2)],
}
RESTRICTED = {"clip33": {"flatten", "reshape"}}


def denote_args(op, v):
    """the step in the vocabulary of the reference semantics (Denote.RunProg): the driver reads op/variant, the specification op/args"""
    E = []
    if op == "transpose": return dict(axes=E)
    if op == "flip": return dict(axis=[[0]], int=True) if v == 0 else dict(axis=E, int=False)
    if op == "sum": return dict(axis=[[0]] if v in (0, 1) else [[-1]], axis_int=True, initial=E, keepdims="T" if v == 1 else "F")
    if op == "tile": return dict(reps=[2]) if v in (0, 1) else dict(reps=[2, 1, 1, 2])     # v = 2 / 3: more repetitions (fixed-length run-time array / constants) than any leaf's dimension bound
    if op == "expand_dims": return dict(axis=[0], int=True)
    if op == "reshape": return dict(dst=[-1])
    if op == "take": return dict(indices=[0, 0], axis=-1)          # run-time indices and axis: the extent at the axis is the number of indices
    if op == "concat_self": return dict(axis=[0])                   # v = 0 run-time axis, v = 1 compile-time axis: the extent doubles
    if op == "atleast_nd": return dict(nd=3)                        # v = 0 run-time nd, v = 1 compile-time nd
    return dict(none=True)


KINDS2 = ["dyn", "const23", "fixdim2", "bounddim3", "clip33", "clip46", "boundsize6"]
FORMS2 = [("concatenate", "rt0", dict(axis=[0])), ("concatenate", "ct0", dict(axis=[0])), ("concatenate", "rtm1", dict(axis=[-1])), ("concatenate", "none", dict(axis=[])),
          ("add", "-", dict(none=True)), ("stack", "-", dict(axis=0))]
SHAPES2 = {"dyn": [[2, 3], [3, 3], [1, 3], [2, 1]], "const23": [[2, 3]], "fixdim2": [[2, 3], [3, 3], [1, 3], [3, 1], [2, 2]], "bounddim3": [[2, 3], [3, 3], [3]],
           "clip33": [[a, b] for a in (1, 2, 3) for b in (1, 2, 3)], "clip46": [[a, b] for a in (1, 2, 3, 4) for b in (1, 2, 3, 6)], "boundsize6": [[2, 3], [1, 3], [3, 1], [2, 2]]}


def pair_valid(op, form, sa, sb):
    if op == "add":
        n = max(len(sa), len(sb)); a = [1] * (n - len(sa)) + sa; b = [1] * (n - len(sb)) + sb
        return all(x == y or x == 1 or y == 1 for x, y in zip(a, b))
    if op == "stack": return sa == sb
    if form == "none": return True
    if len(sa) != len(sb): return False
    ax = 0 if form in ("rt0", "ct0") else len(sa) - 1
    return all(i == ax or x == y for i, (x, y) in enumerate(zip(sa, sb)))


def pair_cases(start):
    """binary views over two leaves of every pair of static-knowledge kinds that compiles (harness/drivers/static2_combos.inc)"""
    import re
    combos = [tuple(map(int, m)) for m in re.findall(r"COMBO\((\d+), (\d+), (\d+)\)", open(os.path.join(vlib.ROOT, "harness", "drivers", "static2_combos.inc")).read())]
    out = {i: [] for i in range(len(KINDS2))}
    n = start
    for a, b, f in combos:
        op, form, args = FORMS2[f]
        if form == "rtm1": continue        # concatenate does not normalise a negative axis (known finding of C04): not a static-information question
        for sa in SHAPES2[KINDS2[a]]:
            for sb in SHAPES2[KINDS2[b]]:
                if not pair_valid(op, form, sa, sb): continue
                n += 1
                out[a].append(dict(id=n, op=op, kinds=[KINDS2[a], KINDS2[b]], shapes=[sa, sb], args=dict(args, form=form)))
    return out


def join_cases(start):
    """every bound grid compiled into drv_clipped x every extent tuple within the bounds"""
    grids = [(a, b) for a in (1, 2, 3, 6) for b in (1, 2, 3, 6)] + [(a, b, c) for (a, b) in ((1, 1), (1, 3), (2, 1), (2, 3), (4, 1), (4, 3)) for c in (1, 2, 4)]
    out = []; n = start
    for g in grids:
        for e in itertools.product(*[range(1, b + 1) for b in g]):
            n += 1; out.append(dict(id=n, op="join", bounds=list(g), extents=list(e)))
    return out


def programs(maxd):
    steps = [dict(op=o, variant=v, args=denote_args(o, v), shapes=[[]]) for o in OPS for v in VARIANTS[o]]
    out = [[s] for s in steps]
    if maxd >= 2: out += [[a, b] for a in steps for b in steps]
    return out


def stays_array(shape, prog):
    """False when an intermediate result is zero-dimensional (reducing the only axis) and further operations follow"""
    d = len(shape)
    for k, st in enumerate(prog):
        if d == 0: return False
        op, v = st["op"], st["variant"]
        if op in ("flatten", "reshape"): d = 1
        elif op == "sum" and v != 1: d -= 1
        elif op == "expand_dims": d += 1
        elif op == "atleast_nd": d = max(d, 3)
        elif op == "tile" and v in (2, 3): d = max(d, 4)
    return True


def run(tier, seed):
    ck = Check("C11", tier, seed)
    quick = tier == "quick"
    maxd = 2
    ck.add_mc(vlib.tlc_model_check("StaticInfo", "MC_StaticInfo", workers=8))
    specs = [dict(name="drv_static", flags=(f"-DMAXD={maxd}", f"-DFIRST_IDX={i}", "-O0"), tag=f"_d{maxd}_{i}") for i in range(len(OPS))]
    bins = vlib.build_drivers(specs)
    progs = programs(maxd)
    if quick:
        ck.rng.shuffle(progs); progs = [p for p in progs if len(p) == 1] + [p for p in progs if len(p) == 2][:60]
    by_first = {i: [] for i in range(len(OPS))}
    n = 0
    for kind, shapes in KIND_SHAPES.items():
        for p in progs:
            if kind in RESTRICTED and any(s["op"] not in RESTRICTED[kind] for s in p): continue
            for shp in shapes:
                if not stays_array(shp, p): continue
                n += 1
                by_first[OPS.index(p[0]["op"])].append(dict(id=n, op="program", kind=kind, shapes=[shp], prog=p, args=dict(none=True)))
    total = 0
    for i, cases in by_first.items():
        if not cases: continue
        files = vlib.run_driver(bins[i], cases, ck.workdir, f"static{i}", nproc=max(2, vlib.NCPU // 3))
        mism, st = vlib.validate_traces("TraceStatic", files)
        ck.add_trace_stats(st, len(cases)); total += len(cases)
        # "nothing is clipped": the object must also be the view the reference semantics defines (shape and every element)
        mism2, st2 = vlib.validate_traces("TraceOps", files)
        ck.add_trace_stats(st2, 0)
        seen = {m["event"].get("id") for m in mism}
        for m in mism2:
            if m["event"].get("id") not in seen:
                m["why"] = "the object is not the view the reference semantics defines (shape or elements differ: clipped or mis-inferred result)"
                mism.append(m)
        for m in mism:
            ev = m["event"]; res = ev.get("res", {})
            if str(res.get("crash", "")).startswith("driver:"):
                ck.extra["skipped_unsupported"] = ck.extra.get("skipped_unsupported", 0) + 1
                continue
            if res.get("maybe") and not res.get("ok") and not res.get("crash"):
                ck.extra["nothing_results"] = ck.extra.get("nothing_results", 0) + 1     # arguments not applicable to this shape (e.g. axis beyond the dimension)
                continue
            case = {k: v for k, v in ev.items() if k not in ("res", "e")}
            kindf = "crash" if res.get("crash") else ("unsound_traits" if "traits" in res else "other")
            key = canon([case.get("kind"), case.get("shapes"), case.get("prog"), kindf])
            ck.mismatch(key, kindf, case, m["expect"], {k: res.get(k) for k in ("traits", "shape", "dim", "size", "eval_shape", "eval_traits", "crash")},
                        what=f"static information of {'>'.join(s['op'] for s in case.get('prog', []))} over a {case.get('kind')} leaf: {m['why']}", driver=os.path.basename(bins[i]))
    # binary views over pairs of leaf kinds
    pairs = pair_cases(n)
    pbins = vlib.build_drivers([dict(name="drv_static2", flags=(f"-DFIRST_KIND={i}", "-O0"), tag=f"_k{i}") for i in range(len(KINDS2))])
    for i, cases in pairs.items():
        if not cases: continue
        files = vlib.run_driver(pbins[i], cases, ck.workdir, f"static2_{i}", nproc=max(2, vlib.NCPU // 3))
        mism, st = vlib.validate_traces("TraceStatic", files)
        ck.add_trace_stats(st, len(cases)); total += len(cases)
        mism2, st2 = vlib.validate_traces("TraceOps", files)
        ck.add_trace_stats(st2, 0)
        seen = {m["event"].get("id") for m in mism}
        for m in mism2:
            if m["event"].get("id") not in seen:
                m["why"] = "the object is not the view the reference semantics defines (shape or elements differ: clipped or mis-inferred result)"; mism.append(m)
        for m in mism:
            ev = m["event"]; res = ev.get("res", {})
            if str(res.get("crash", "")).startswith("driver:"):
                ck.extra["skipped_unsupported"] = ck.extra.get("skipped_unsupported", 0) + 1; continue
            case = {k: v for k, v in ev.items() if k not in ("res", "e")}
            kindf = "crash" if res.get("crash") else ("rejected" if not res.get("ok") else "unsound_or_clipped")
            ck.mismatch(canon([case.get("op"), case.get("kinds"), case.get("shapes"), case.get("args"), kindf]), kindf, case, m["expect"],
                        {k: res.get(k) for k in ("traits", "shape", "dim", "size", "eval_shape", "eval_traits", "crash", "ok")},
                        what=f"{case.get('op')} ({case.get('args', {}).get('form')}) over leaves of kinds {case.get('kinds')}: {m['why']}", driver=os.path.basename(pbins[i]))
    ck.extra["pair_cases"] = sum(len(v) for v in pairs.values())
    # the index type the axes of a clipped shape are joined into (StaticInfo.AbsJoin): every extent must survive the conversion
    jcases = join_cases(n + ck.extra["pair_cases"])
    jbin = vlib.build_driver("drv_clipped", flags=("-O0",))
    files = vlib.run_driver(jbin, jcases, ck.workdir, "clipped_join", nproc=4)
    mism, st = vlib.validate_traces("TraceStatic", files)
    ck.add_trace_stats(st, len(jcases)); total += len(jcases)
    for m in mism:
        ev = m["event"]; res = ev.get("res", {})
        case = {k: v for k, v in ev.items() if k not in ("res", "e")}
        ck.mismatch(canon(["join", case.get("bounds"), case.get("extents")]), "crash" if res.get("crash") else "join_loses_extent", case, dict(at=case.get("extents"), join_contains=[0, max(case.get("bounds", [0]))]),
                    {k: res.get(k) for k in ("at", "direct", "join", "product", "crash")},
                    what=f"clipped shape with bounds {case.get('bounds')} holding {case.get('extents')}: {m['why']}", driver="drv_clipped")
    ck.extra["join_cases"] = len(jcases)
    ck.checker_cmds.append("TRACE=<events> tlc -config spec/TraceStatic.cfg spec/TraceStatic.tla")
    ck.nontrivial_count = total
    ck.rule = ("view types = leaves of six static-knowledge kinds (constant shape, clipped shape, fixed dimension, bounded dimension, bounded size, dynamic) x programs of depth 1..2 over transpose, flatten, "
               "flip, sum, add, tile, expand_dims, reshape whose arguments are compile-time constants (so static knowledge propagates) or run-time values; for types with run-time freedom every run-time "
               "shape the leaf admits within its bound is instantiated (e.g. all nine shapes under a clipped (3,3) bound); per instance the five traits (fixed_shape, fixed_dim, fixed_size, bounded_dim, "
               "bounded_size) of the view type and of the type eval() chose are checked for soundness against shape()/dim()/size(), eval() must return every element, and the object must be the view the "
               "reference semantics defines (TraceOps: shape and every element, i.e. nothing clipped); binary views (concatenate with run-time / compile-time / negative / None axis, add, stack) over every pair of "
               "seven leaf kinds that compiles (277 of 294 combinations, table found by trial compilation) with every admitted pair of run-time shapes incl. sums that exceed one operand's bound; "
               "the index type a clipped shape's axes are joined into (common type, read at a run-time position) for 34 bound tuples x every extent tuple within the bounds (StaticInfo.AbsJoin / SoundJoin)")
    ck.exhaustive = not quick
    ck.assumptions += ["clipped-shape leaves compose only with flatten and reshape (every other view is a compile-time error in this version)", "depth-3 types are not generated (compile time)"]
    for i, cases in by_first.items():
        for c in cases[:1]: ck.sample(c)
    return ck.finish()


def replay(rec):
    case = dict(rec["case"]); case["id"] = 1
    if "kinds" in case:
        i = KINDS2.index(case["kinds"][0])
        drv = vlib.build_driver("drv_static2", flags=(f"-DFIRST_KIND={i}", "-O0"), tag=f"_k{i}")
        wd = os.path.join(vlib.BUILD, "replay"); os.makedirs(wd, exist_ok=True)
        files = vlib.run_driver(drv, [case], wd, "replay", nproc=1)
        m1, _ = vlib.validate_traces("TraceStatic", files); m2, _ = vlib.validate_traces("TraceOps", files)
        ev = [json.loads(l) for l in open(files[0])][0]
        print("case:", canon(case)); print("observed:", canon(ev.get("res"))[:800])
        for m in m2: print("expected:", canon(m["expect"])[:400])
        print("replay:", "mismatch reproduced on the current tree" if (m1 or m2) else "no mismatch on the current tree")
        return 1 if (m1 or m2) else 0
    if case.get("op") == "join":
        drv = vlib.build_driver("drv_clipped", flags=("-O0",))
        wd = os.path.join(vlib.BUILD, "replay"); os.makedirs(wd, exist_ok=True)
        files = vlib.run_driver(drv, [case], wd, "replay", nproc=1)
        mism, st = vlib.validate_traces("TraceStatic", files)
        ev = [json.loads(l) for l in open(files[0])][0]
        print("case:", canon(case)); print("observed:", canon(ev.get("res"))[:800])
        print("replay:", "mismatch reproduced on the current tree" if mism else "no mismatch on the current tree")
        return 1 if mism else 0
    i = OPS.index(case["prog"][0]["op"])
    drv = vlib.build_driver("drv_static", flags=("-DMAXD=2", f"-DFIRST_IDX={i}", "-O0"), tag=f"_d2_{i}")
    wd = os.path.join(vlib.BUILD, "replay"); os.makedirs(wd, exist_ok=True)
    files = vlib.run_driver(drv, [case], wd, "replay", nproc=1)
    mism, st = vlib.validate_traces("TraceStatic", files)
    ev = [json.loads(l) for l in open(files[0])][0]
    print("case:", canon(case)); print("observed:", canon(ev.get("res"))[:800])
    print("replay:", "mismatch reproduced on the current tree" if mism else "no mismatch on the current tree")
    return 1 if mism else 0
