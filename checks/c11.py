"""C11: statically inferred shape, size and bounds agree with every run-time instance
(StaticInfo.tla abstract domain; drv_static over leaf kinds x compile-time-argument programs; TraceStatic)."""
import itertools, json, os
import vlib
from vlib import Check, canon

OPS = ["transpose", "flatten", "flip", "sum", "add_self", "tile", "expand_dims", "reshape"]
VARIANTS = {"transpose": [0], "flatten": [0], "flip": [0, 1], "sum": [0, 1, 2], "add_self": [0], "tile": [0, 1], "expand_dims": [0], "reshape": [0]}
# run-time shapes each leaf kind admits (all of them within the bound)
KIND_SHAPES = {
    "dyn": [[2, 3], [4], [2, 1, 2], [3, 3]],
    "const23": [[2, 3]],
    "fixdim2": [[2, 3], [3, 1], [1, 4], [3, 3]],
    "bounddim3": [[2, 3], [4], [2, 1, 2]],
    "clip33": [[a, b] for a in (1, 2, 3) for b in (1, 2, 3)],
    "boundsize6": [[2, 3], [3, 2], [1, 6], [6, 1], [2, 2], [1, 1]],
}
RESTRICTED = {"clip33": {"flatten", "reshape"}}


def programs(maxd):
    steps = [dict(op=o, variant=v) for o in OPS for v in VARIANTS[o]]
    out = [[s] for s in steps]
    if maxd >= 2: out += [[a, b] for a in steps for b in steps]
    return out


def stays_array(shape, prog):
    """False when an intermediate result is zero-dimensional (reducing the only axis) and further operations follow"""
    d = len(shape)
    for k, st in enumerate(prog):
        if d == 0: return False
        op, v = st["op"], st["variant"]
        if op in ("flatten", "reshape"): d = 1
        elif op == "sum" and v != 1: d -= 1
        elif op == "expand_dims": d += 1
    return True


def run(tier, seed):
    ck = Check("C11", tier, seed)
    quick = tier == "quick"
    maxd = 2
    ck.add_mc(vlib.tlc_model_check("StaticInfo", "MC_StaticInfo", workers=8))
    specs = [dict(name="drv_static", flags=(f"-DMAXD={maxd}", f"-DFIRST_IDX={i}", "-O0"), tag=f"_d{maxd}_{i}") for i in range(len(OPS))]
    bins = vlib.build_drivers(specs)
    progs = programs(maxd)
    if quick:
        ck.rng.shuffle(progs); progs = [p for p in progs if len(p) == 1] + [p for p in progs if len(p) == 2][:60]
    by_first = {i: [] for i in range(len(OPS))}
    n = 0
    for kind, shapes in KIND_SHAPES.items():
        for p in progs:
            if kind in RESTRICTED and any(s["op"] not in RESTRICTED[kind] for s in p): continue
            for shp in shapes:
                if not stays_array(shp, p): continue
                n += 1
                by_first[OPS.index(p[0]["op"])].append(dict(id=n, kind=kind, shapes=[shp], prog=p))
    total = 0
    for i, cases in by_first.items():
        if not cases: continue
        files = vlib.run_driver(bins[i], cases, ck.workdir, f"static{i}", nproc=max(2, vlib.NCPU // 3))
        mism, st = vlib.validate_traces("TraceStatic", files)
        ck.add_trace_stats(st, len(cases)); total += len(cases)
        for m in mism:
            ev = m["event"]; res = ev.get("res", {})
            if str(res.get("crash", "")).startswith("driver:"):
                ck.extra["skipped_unsupported"] = ck.extra.get("skipped_unsupported", 0) + 1
                continue
            if res.get("maybe") and not res.get("ok") and not res.get("crash"):
                ck.extra["nothing_results"] = ck.extra.get("nothing_results", 0) + 1     # arguments not applicable to this shape (e.g. axis beyond the dimension)
                continue
            case = {k: v for k, v in ev.items() if k not in ("res", "e")}
            kindf = "crash" if res.get("crash") else ("unsound_traits" if "traits" in res else "other")
            key = canon([case.get("kind"), case.get("shapes"), case.get("prog"), kindf])
            ck.mismatch(key, kindf, case, m["expect"], {k: res.get(k) for k in ("traits", "shape", "dim", "size", "eval_shape", "eval_traits", "crash")},
                        what=f"static information of {'>'.join(s['op'] for s in case.get('prog', []))} over a {case.get('kind')} leaf: {m['why']}", driver=os.path.basename(bins[i]))
    ck.checker_cmds.append("TRACE=<events> tlc -config spec/TraceStatic.cfg spec/TraceStatic.tla")
    ck.nontrivial_count = total
    ck.rule = ("view types = leaves of six static-knowledge kinds (constant shape, clipped shape, fixed dimension, bounded dimension, bounded size, dynamic) x programs of depth 1..2 over transpose, flatten, "
               "flip, sum, add, tile, expand_dims, reshape whose arguments are compile-time constants (so static knowledge propagates) or run-time values; for types with run-time freedom every run-time "
               "shape the leaf admits within its bound is instantiated (e.g. all nine shapes under a clipped (3,3) bound); per instance the five traits (fixed_shape, fixed_dim, fixed_size, bounded_dim, "
               "bounded_size) of the view type and of the type eval() chose are checked for soundness against shape()/dim()/size(), and eval() must return every element (nothing clipped)")
    ck.exhaustive = not quick
    ck.assumptions += ["clipped-shape leaves compose only with flatten and reshape (every other view is a compile-time error in this version)", "depth-3 types are not generated (compile time)"]
    for i, cases in by_first.items():
        for c in cases[:1]: ck.sample(c)
    return ck.finish()


def replay(rec):
    case = dict(rec["case"]); case["id"] = 1
    i = OPS.index(case["prog"][0]["op"])
    drv = vlib.build_driver("drv_static", flags=("-DMAXD=2", f"-DFIRST_IDX={i}", "-O0"), tag=f"_d2_{i}")
    wd = os.path.join(vlib.BUILD, "replay"); os.makedirs(wd, exist_ok=True)
    files = vlib.run_driver(drv, [case], wd, "replay", nproc=1)
    mism, st = vlib.validate_traces("TraceStatic", files)
    ev = [json.loads(l) for l in open(files[0])][0]
    print("case:", canon(case)); print("observed:", canon(ev.get("res"))[:800])
    print("replay:", "mismatch reproduced on the current tree" if mism else "no mismatch on the current tree")
    return 1 if mism else 0
