"""C20: array objects keep their invariants under resize, assign and element writes
(NdArray.tla / GenNdArray / TraceNdArray / drv_ndarray); mutable views are validated against Views/Slice semantics."""
import json, os
import vlib
from vlib import Check, canon
from checks import opslib

KINDS = json.load(open(os.path.join(os.path.dirname(__file__), "c20_kinds.json")))
INIT = [2, 3]


def export_histories(kind, tier):
    cfg = f"GenNdArray_{kind}_{tier}"
    key = vlib.spec_hash("MC_NdArray", cfg)[:16]
    path = os.path.join(vlib.GEN, f"{cfg}.{key}.ndjson")
    if not os.path.exists(path):
        r = vlib.tlc("MC_NdArray", cfg, workers=1, timeout=1400)
        if not r["ok"]:
            raise vlib.Inconclusive("history export failed: " + r["out"][-1500:])
        hs = [json.loads(json.loads(l.strip()))["h"] for l in r["out"].splitlines() if l.strip().startswith('"{')]
        with open(path + ".tmp", "w") as f:
            for h in hs: f.write(json.dumps(h, separators=(",", ":")) + "\n")
        os.replace(path + ".tmp", path)
        vlib.log(f"[gen] {cfg}: {len(hs)} histories, {r['wall']:.1f}s")
    return [json.loads(l) for l in open(path)]


def random_history(r, length, no_dtype=False):
    """Seeded histories; enabledness of copy-related actions is tracked, resize validity is decided by the specification."""
    shapes = [[6], [2, 3], [3, 2], [1, 6], [6, 1], [2, 2], [3, 3], [4, 2], [2, 3, 1], [1, 2, 3], [2, 2, 2], [1], [5], [2, 1], [3, 1, 2], [1, 1, 1, 6]]
    h = []; has_copy = False
    for step in range(1, length + 1):
        op = r.choice(["resize", "resize", "write", "write", "copy", "assign", "assign_back", "write_copy", "drop_copy", "cast_dtype", "cast_kind"])
        if op == "resize": h.append(dict(op="resize", shape=r.choice(shapes)))
        elif op == "write": h.append(dict(op="write", k=0, v=5000 + step))
        elif op == "copy" and not has_copy: h.append(dict(op="copy")); has_copy = True
        elif op == "assign" and has_copy: h.append(dict(op="assign"))
        elif op == "assign_back" and has_copy: h.append(dict(op="assign_back"))
        elif op == "write_copy" and has_copy: h.append(dict(op="write_copy", k=0, v=7000 + step))
        elif op == "drop_copy" and has_copy: h.append(dict(op="drop_copy")); has_copy = False
        elif op == "cast_dtype" and not no_dtype: h.append(dict(op="cast_dtype", t=r.choice(["f64", "f32", "i8", "u8", "i16"])))
        elif op == "cast_kind": h.append(dict(op="cast_kind", k=r.choice(["dynamic", "nd_dyn"])))
    # values must follow the step numbering of the machine
    for i, a in enumerate(h, 1):
        if a["op"] == "write": a["v"] = 5000 + i
        if a["op"] == "write_copy": a["v"] = 7000 + i
    return h


def clipped_column_major(case):
    return str(case.get("kind", "")).endswith("_clipped") and case.get("layout") == "F"


def mutable_cases(tier):
    """Mutable views over the case tables of C03 / C05 (TLC exports): one write per view index."""
    out = []
    for c in vlib.tlc_generate("GenViews", "GenViews_" + tier, env={"FAM": "reshape"}, key_extra="reshape", timeout=1400):
        # nmtools has no zero-dimensional array type: 0-dim sources and reshape targets are outside its universe (as in C03)
        if c["op"] == "reshape" and c["shapes"][0] and c["args"]["dst"]:
            out.append(dict(op="mutable_write", shapes=c["shapes"], args=dict(view="reshape", vargs=dict(dst=c["args"]["dst"], parts=[]))))
    shapes = sorted({tuple(c["shapes"][0]) for c in out})
    for s in shapes:
        for v in ("flatten", "ref"):
            out.append(dict(op="mutable_write", shapes=[list(s)], args=dict(view=v, vargs=dict(dst=[], parts=[]))))
    for f in ("axis", "multi"):
        for c in vlib.tlc_generate("GenSlice", "GenSlice_" + tier, env={"FAM": f}, key_extra=f):
            ps = c["args"]["parts"]
            # the driver spells one fully specified (start,stop,step) per axis (None-ness is a compile-time property, covered by C05)
            if len(ps) == len(c["shapes"][0]) and all(p["k"] == "s" and p["start"] and p["stop"] and p["step"] for p in ps):
                out.append(dict(op="mutable_write", shapes=c["shapes"], args=dict(view="slice", vargs=dict(dst=[], parts=ps))))
    return out


def run(tier, seed):
    ck = Check("C20", tier, seed)
    quick = tier == "quick"
    drv = vlib.build_driver("drv_ndarray")
    total = 0
    for kind in KINDS:
        ck.add_mc(vlib.tlc_model_check("MC_NdArray", f"MC_NdArray_{kind}_{tier}", workers=4, timeout=2400))
        hs = export_histories(kind, tier)
        if kind.startswith("boundbuf"):
            # an element-type cast of an ndarray_t over a bounded buffer does not compile (loud limitation): histories without it
            hs = [h for h in hs if all(a["op"] != "cast_dtype" for a in h)]
        if kind in ("fixbuf_const", "legacy_fixed"):
            # a constant-shape ndarray_t / fixed_ndarray has no resize member at all (compile-time rejection): histories without resize only
            hs = [h for h in hs if all(a["op"] != "resize" for a in h)]
        else:
            for _ in range(60 if quick else 600):
                hs.append(random_history(ck.rng, ck.rng.randint(3, 6), no_dtype=kind.startswith("boundbuf")))
        cases = []
        for i, h in enumerate(hs):
            for layout in (("C",) if kind.startswith("legacy") else ("C", "F")):
                cases.append(dict(id=len(cases) + 1, kind=kind, layout=layout, init=INIT, h=h))
        total += len(cases)
        files = vlib.run_driver(drv, cases, ck.workdir, "nd_" + kind)
        mism, st = vlib.validate_traces("TraceNdArray", files, cfg=f"TraceNdArray_{kind}")
        ck.add_trace_stats(st, len(cases))
        by_id = {c["id"]: c for c in cases}
        seen = set()
        for m in mism:
            ev = m["event"]; case = by_id.get(ev.get("id"), {})
            if ev.get("id") in seen: continue
            seen.add(ev.get("id"))
            k = ev.get("k", -1)
            prefix = case.get("h", [])[:k + 1]
            kindf = "crash" if ev.get("e") == "crash" else ("refused_but_mutated" if ev.get("ret") is False and m["expect"].get("ret") is False else "state_differs")
            key = canon([kind, case.get("layout"), prefix[-1] if prefix else "init", kindf])
            ck.mismatch(key, kindf, dict(kind=kind, layout=case.get("layout"), init=INIT, h=prefix), m["expect"],
                        {x: ev.get(x) for x in ("ret", "proj", "res")}, what=f"ndarray kind {kind} layout {case.get('layout')}: {m['why']}", driver="drv_ndarray")
        ck.sample(dict(kind=kind, h=hs[min(5, len(hs) - 1)]))
    # mutable views: a write through the view changes exactly the source element the reference view reads at that index
    mc = opslib.number(mutable_cases(tier))
    mdrv = vlib.build_driver("drv_mutable")
    opslib.run_ops(ck, mdrv, mc, want="all", label="mutable", describe=lambda c, k: f"mutable_{c['args']['view']}: {k}")
    ck.extra["mutable_view_cases"] = len(mc)
    ck.sample(mc[len(mc) // 2])
    total += len(mc)
    ck.nontrivial_count = total
    ck.rule = ("histories = one per explored transition of the array-object machine (TLC; resize to every shape of the scope incl. shapes that exceed a fixed/bounded buffer, "
               "change the dimension or exceed a clipped bound; element writes; copy, assign in both directions, writes to the copy; element-type casts to f64/f32/i8/u8/i16 and kind casts to "
               "dynamic_ndarray / a dynamic ndarray_t, whose result must have the object's shape and converted values) for 12 ndarray_t shape x buffer kinds and the legacy fixed_ndarray / hybrid_ndarray / dynamic_ndarray "
               "(dynamic / fixed-dim / bounded-dim / constant / clipped shape x dynamic / fixed / bounded buffer) x row- and column-major layout, plus seeded histories; after every "
               "action: return value, shape, dim, size, every element by logical index and 'buffer is a permutation of the elements' for the object and its copy; "
               "mutable views (mutable_flatten / mutable_reshape / mutable_slice / mutable_ref over the reshape and slice case tables of C03 / C05): for every index of the view a marker is "
               "written through the view and the set of changed source positions must be exactly the one position the reference view reads there (Denote mutable_write)")
    ck.exhaustive = True
    ck.assumptions += ["casts to the 15 ndarray kind tags and to fixed / hybrid kinds need a compile-time source shape: they are exercised by the C09 kinds matrix (op cast), not by this machine", "element-type casts of an ndarray_t over a bounded buffer (static_vector) and kind-tag casts from fixed-dimension run-time shapes do not compile (loud limitations)",
                       "contents after an accepted resize are not specified by the property: the harness refills the array after every accepted resize"]
    return ck.finish()


def replay(rec):
    if rec["case"].get("op") == "mutable_write":
        return opslib.replay_ops(rec, "drv_mutable")
    case = dict(rec["case"]); case["id"] = 1
    drv = vlib.build_driver("drv_ndarray")
    wd = os.path.join(vlib.BUILD, "replay"); os.makedirs(wd, exist_ok=True)
    files = vlib.run_driver(drv, [case], wd, "replay", nproc=1)
    mism, st = vlib.validate_traces("TraceNdArray", files, cfg=f"TraceNdArray_{case['kind']}")
    print("history:", canon(case["h"]))
    for m in mism[:3]:
        print("MISMATCH at step", m["event"].get("k"), m["why"], "\n  expected", canon(m["expect"]), "\n  observed", canon({x: m["event"].get(x) for x in ("ret", "proj")}))
    print("replay:", "mismatch reproduced on the current tree" if mism else "no mismatch on the current tree")
    return 1 if mism else 0
