"""C04: selecting, replicating, joining, generating views (Select.tla / MC_Select / TraceOps / drv_select)."""
import itertools
import vlib
from vlib import Check
from checks import opslib


BIG = (16777217, 16777219, 33554435, 100000001, 1073741825, 2147483639 // 2)


def shapes_of(dmin, dmax, emax, emin=1):
    for d in range(dmin, dmax + 1):
        for s in itertools.product(range(emin, emax + 1), repeat=d):
            yield list(s)


def prod(s):
    p = 1
    for x in s: p *= x
    return p


def axes_of(d):
    return list(range(-d, d))


def C(op, shapes, **args):
    return dict(op=op, shapes=shapes, args=args or dict(none=True))


def table(D, E, full):
    """Exhaustive small scope: every source shape of dim 1..D, extents 1..E with the argument grids of the property."""
    out = []
    for s in shapes_of(1, D, E):
        d = len(s); n = prod(s)
        # tile: reps 1..3 (1..2 in the reduced scope) for 1..d+1 axes
        rmax = 3 if full else 2
        for m in range(1, min(d + 1, 3) + 1):
            for reps in itertools.product(range(1, rmax + 1), repeat=m):
                if n * prod(reps) <= 300: out.append(C("tile", [s], reps=list(reps)))
        # repeat: scalar with axis None / every axis; per-element with every axis
        for r in (1, 2, 3):
            out.append(C("repeat", [s], repeats=[r], scalar=True, axis=[]))
            for ax in axes_of(d): out.append(C("repeat", [s], repeats=[r], scalar=True, axis=[ax]))
        for ax in axes_of(d):
            ext = s[ax]
            for reps in itertools.product((1, 2, 3), repeat=ext):
                if ext <= 3 or full: out.append(C("repeat", [s], repeats=list(reps), scalar=False, axis=[ax]))
        # roll: single axis, shifts in [-2n, 2n]; flattened; several axes
        for ax in axes_of(d):
            ext = s[ax]
            for sh in range(-2 * ext, 2 * ext + 1):
                out.append(C("roll", [s], shift=[sh], shift_int=True, axis=[[ax]], axis_int=True))
        for sh in range(-min(2 * n, 8), min(2 * n, 8) + 1):
            out.append(C("roll", [s], shift=[sh], shift_int=True, axis=[], axis_int=False))
        if d >= 2:
            for a1, a2 in itertools.permutations(range(d), 2):
                for s1, s2 in ((1, -1), (2, 1), (-3, 2), (-s[a1], s[a2] + 1)):
                    out.append(C("roll", [s], shift=[s1, s2], shift_int=False, axis=[[a1, a2 - d]], axis_int=False))
                out.append(C("roll", [s], shift=[1], shift_int=True, axis=[[a1 - d, a2]], axis_int=False))
        # take / compress
        for ax in axes_of(d):
            ext = s[ax]
            vals = list(range(-ext, ext))
            for m in (1, 2) + ((3,) if full and ext <= 2 else ()):
                for idx in itertools.product(vals, repeat=m):
                    out.append(C("take", [s], indices=list(idx), axis=ax))
            for m in range(1, ext + 1):
                for cond in itertools.product((0, 1), repeat=m):
                    out.append(C("compress", [s], cond=list(cond), axis=[ax]))
        for m in range(1, min(n, 4) + 1):
            for cond in itertools.product((0, 1), repeat=m):
                out.append(C("compress", [s], cond=list(cond), axis=[]))
        # joining: second operand differs on the joined axis
        for ax in axes_of(d):
            for e2 in range(1, E + 1):
                t = list(s); t[ax] = e2
                out.append(C("concatenate", [s, t], axis=[ax]))
        out.append(C("concatenate", [s, s], axis=[]))
        out.append(C("concatenate", [s, [2]], axis=[]))
        for ax in range(-(d + 1), d + 1): out.append(C("stack", [s, s], axis=ax))
        for e2 in range(1, E + 1):
            if d == 1: out.append(C("hstack", [s, [e2]]))
            else: t = list(s); t[1] = e2; out.append(C("hstack", [s, t]))
            t = list(s); t[0] = e2
            if d >= 2: out.append(C("vstack", [s, t]))
            if d >= 3: t = list(s); t[2] = e2; out.append(C("dstack", [s, t]))
        if d == 1: out.append(C("vstack", [s, s]))
        if d <= 2: out.append(C("dstack", [s, s]))
        if d == 1: out.append(C("column_stack", [s, s])); out.append(C("column_stack", [s, [s[0], 2]]))
        if d == 2:
            out.append(C("column_stack", [s, [s[0]]]))
            for e2 in range(1, E + 1): out.append(C("column_stack", [s, [s[0], e2]]))
        # split
        for ax in axes_of(d):
            ext = s[ax]
            for k in range(1, ext + 1):
                if ext % k == 0: out.append(C("split", [s], sections=[k], indices=[], axis=ax))
            for k in range(0, ext + 1):
                out.append(C("split", [s], sections=[], indices=[k], axis=ax))
            for k1 in range(0, ext + 1):
                for k2 in range(k1, ext + 1):
                    out.append(C("split", [s], sections=[], indices=[k1, k2], axis=ax))
        # sliding window
        for ax in axes_of(d):
            for w in range(1, s[ax] + 1):
                out.append(C("sliding_window", [s], window=[w], window_int=True, axis=[[ax]]))
        if d <= 3:
            for w in itertools.product(*[range(1, e + 1) for e in s]):
                if n * prod(w) <= 400: out.append(C("sliding_window", [s], window=list(w), window_int=False, axis=[]))
        if d >= 2:
            for a1, a2 in itertools.permutations(range(d), 2):
                for w1 in range(1, s[a1] + 1):
                    for w2 in range(1, s[a2] + 1):
                        out.append(C("sliding_window", [s], window=[w1, w2], window_int=False, axis=[[a1, a2 - d]]))
        # diagonals / triangles
        if d >= 2:
            for a1, a2 in itertools.permutations(axes_of(d), 2):
                if a1 % d == a2 % d: continue
                for off in range(-E, E + 1): out.append(C("diagonal", [s], offset=off, axis1=a1, axis2=a2))
            for k in range(-E, E + 1):
                out.append(C("tril", [s], k=k)); out.append(C("triu", [s], k=k))
        if n <= 6:
            for k in range(-2, 3): out.append(C("diagflat", [s], k=k))
        # pad / resize / expand
        if d <= 2 or full:
            for w in itertools.product(range(0, 3), repeat=2 * d):
                if d <= 2 or sum(w) <= 2: out.append(C("pad", [s], widths=list(w), value=-7))
        for t in itertools.product(*[(1, 2, e, e + 1, 2 * e, 5) for e in s]):
            if prod(t) <= 300: out.append(C("resize", [s], dst=list(dict.fromkeys([0])) and list(t)))
        for k in range(1, d + 1):
            for axes in itertools.combinations(range(d), k):
                for sp in (0, 1, 2):
                    ax = [a - d if (a + sp) % 2 else a for a in axes]
                    out.append(C("expand", [s], axis=[ax], axis_int=False, spacing=[sp], spacing_int=True, fill=-7))
                if k == 2:
                    out.append(C("expand", [s], axis=[list(axes)], axis_int=False, spacing=[1, 2], spacing_int=False, fill=-7))
        for ax in axes_of(d):
            out.append(C("expand", [s], axis=[[ax]], axis_int=True, spacing=[1], spacing_int=True, fill=-7))
        out.append(C("full_like", [s], value=9)); out.append(C("zeros_like", [s])); out.append(C("ones_like", [s]))
    # where: broadcastable triples from a small set
    small = [[1], [2], [3], [1, 1], [2, 1], [1, 3], [2, 3], [3, 2], [2, 1, 3], [1, 2, 3], [2, 2, 1]]
    for c, x, y in itertools.product(small, repeat=3):
        dims = max(len(c), len(x), len(y))
        okb = True
        for i in range(1, dims + 1):
            ex = {t[-i] for t in (c, x, y) if len(t) >= i} - {1}
            if len(ex) > 1: okb = False
        if okb:
            out.append(C("where", [c, x, y], cond="int"))
            if prod(c) >= 3: out.append(C("where", [c, x, y], cond="float"))
    # generators
    for st in range(-3, 5):
        for sp in range(-3, 7):
            for step in (-3, -2, -1, 1, 2, 3):
                out.append(C("arange", [], start=st, stop=sp, step=step))
                if (st + sp + step) % 3 == 0: out.append(C("arange", [], start=st, stop=sp, step=step, dtype="float"))     # the default element type
            if sp >= st: out.append(C("arange2", [], start=st, stop=sp))
    for sp in range(0, 8): out.append(C("arange1", [], stop=sp))
    # large ranges (the view is lazy): length and the first / middle / last element
    def arange_len(st, sp, step): return max(0, -((st - sp) // step)) if step > 0 else max(0, -((sp - st) // -step))
    for n in BIG:
        for form, st, sp, step in [(1, 0, n, 1), (2, 1, n, 1), (2, -5, n, 1), (2, n // 2, n, 1), (3, 0, n, 1), (3, 0, n, 2), (3, 1, n, 3), (3, -5, n, 3),
                                   (3, n, 0, -1), (3, n, 1, -2), (3, n, -5, -3), (3, n // 2, -n // 2, -3), (3, -n // 2, n // 2, 2), (3, 5, n, 3)]:
            ln = arange_len(st, sp, step)
            out.append(C("arange_at", [], form=form, start=st, stop=sp, step=step, at=sorted({0, ln // 2, ln - 1})))
    for st in range(-2, 4):
        for sp in range(-2, 6):
            for num in range(1, 7):
                for ep in (True, False):
                    den = max(num - 1, 1) if ep else num
                    out.append(C("linspace", [], start=st, stop=sp, num=num, endpoint=ep, den=den))
    for n_ in range(1, 5):
        out.append(C("identity", [], n=n_))
        for m_ in range(1, 5):
            for k in range(-4, 5):
                out.append(C("eye", [], n=n_, m=m_, k=k)); out.append(C("tri", [], n=n_, m=m_, k=k))
    for s in shapes_of(1, 3, 3):
        out.append(C("full", [], shape=s, value=5)); out.append(C("zeros", [], shape=s)); out.append(C("ones", [], shape=s))
    return out


def seeded(ck, n):
    r = ck.rng
    out = []
    for _ in range(n):
        d = r.randint(1, 4)
        while True:
            s = [r.randint(1, 6) for _ in range(d)]
            if prod(s) <= 500: break
        ax = r.randrange(-d, d)
        ext = s[ax]
        op = r.choice(["tile", "repeat", "roll", "take", "compress", "concatenate", "pad", "resize", "expand", "sliding_window", "diagonal", "tril", "split"])
        if op == "tile":
            reps = [r.randint(1, 3) for _ in range(r.randint(1, d + 1))]
            if prod(s) * prod(reps) > 1500: continue
            out.append(C("tile", [s], reps=reps))
        elif op == "repeat":
            if r.random() < 0.5: out.append(C("repeat", [s], repeats=[r.randint(1, 3)], scalar=True, axis=[] if r.random() < 0.3 else [ax]))
            else: out.append(C("repeat", [s], repeats=[r.randint(1, 3) for _ in range(ext)], scalar=False, axis=[ax]))
        elif op == "roll":
            if r.random() < 0.5: out.append(C("roll", [s], shift=[r.randint(-2 * ext, 2 * ext)], shift_int=True, axis=[[ax]], axis_int=True))
            else:
                k = r.randint(1, d); axes = [a - d if r.random() < 0.5 else a for a in r.sample(range(d), k)]
                out.append(C("roll", [s], shift=[r.randint(-7, 7) for _ in range(k)], shift_int=False, axis=[axes], axis_int=False))
        elif op == "take":
            out.append(C("take", [s], indices=[r.randint(-ext, ext - 1) for _ in range(r.randint(1, 5))], axis=ax))
        elif op == "compress":
            out.append(C("compress", [s], cond=[r.randint(0, 1) for _ in range(r.randint(1, ext))], axis=[ax]))
        elif op == "concatenate":
            t = list(s); t[ax] = r.randint(1, 5); out.append(C("concatenate", [s, t], axis=[ax]))
        elif op == "pad":
            out.append(C("pad", [s], widths=[r.randint(0, 2) for _ in range(2 * d)], value=r.randint(-9, 9)))
        elif op == "resize":
            t = [r.randint(1, 8) for _ in range(d)]
            if prod(t) <= 1500: out.append(C("resize", [s], dst=t))
        elif op == "expand":
            k = r.randint(1, d); axes = [a - d if r.random() < 0.5 else a for a in r.sample(range(d), k)]
            out.append(C("expand", [s], axis=[axes], axis_int=False, spacing=[r.randint(0, 3) for _ in range(k)], spacing_int=False, fill=-7))
        elif op == "sliding_window":
            out.append(C("sliding_window", [s], window=[r.randint(1, ext)], window_int=True, axis=[[ax]]))
        elif op == "diagonal" and d >= 2:
            a1, a2 = r.sample(range(d), 2)
            out.append(C("diagonal", [s], offset=r.randint(-6, 6), axis1=a1, axis2=a2 - d))
        elif op == "tril" and d >= 2:
            out.append(C(r.choice(["tril", "triu"]), [s], k=r.randint(-6, 6)))
        elif op == "split":
            out.append(C("split", [s], sections=[], indices=sorted(r.randint(0, ext) for _ in range(r.randint(1, 3))), axis=ax))
    return out


# ---- input classes of the known findings (closed predicates over the case)
def _neg(x):
    return isinstance(x, int) and x < 0


def negative_axis(c):
    a = c["args"]; op = c["op"]
    if op == "stack": return _neg(a["axis"])
    if op in ("compress", "concatenate", "repeat"): return bool(a["axis"]) and _neg(a["axis"][0])
    return False


def take_negative_index(c):
    return c["op"] == "take" and any(_neg(i) for i in c["args"]["indices"])


def roll_shift_beyond_extent(c):
    if c["op"] != "roll": return False
    a = c["args"]; s = c["shapes"][0]
    if not a["axis"]: return abs(a["shift"][0]) > prod(s)
    axes = a["axis"][0]
    shifts = a["shift"] if len(a["shift"]) == len(axes) else a["shift"] * len(axes)
    return any(abs(sh) > s[ax] for sh, ax in zip(shifts, axes))


def diagonal_negative_offset(c):
    return c["op"] == "diagonal" and c["args"]["offset"] < 0


def empty_result(c):
    a = c["args"]
    if c["op"] == "diagonal":
        s = c["shapes"][0]; d = len(s); n1 = s[a["axis1"] % d]; n2 = s[a["axis2"] % d]; off = a["offset"]
        return (max(0, min(n1, n2 - off)) if off >= 0 else max(0, min(n1 + off, n2))) == 0
    return False


def linspace_single_point(c):
    return c["op"] == "linspace" and c["args"]["num"] == 1 and c["args"]["endpoint"]


PREDS = dict(c04_negative_axis=negative_axis)


def run(tier, seed):
    ck = Check("C04", tier, seed)
    ck.preds.update(PREDS)
    quick = tier == "quick"
    ck.add_mc(vlib.tlc_model_check("MC_Select", "MC_Select_" + tier, timeout=2400))
    tab = table(3, 3, False) if quick else table(4, 3, True) + [c for c in table(2, 4, True) if any(4 in s for s in c["shapes"])]
    extra = seeded(ck, 2500 if quick else 30000)
    cases = opslib.number(tab + extra)
    drv = vlib.build_driver("drv_select")
    opslib.run_ops(ck, drv, cases, want="valid", label="select", describe=lambda c, k: f"view::{c['op']} {k}")
    ck.nontrivial_count = len({vlib.canon([c["op"], c["shapes"], c["args"]]) for c in cases})
    ck.rule = ("cases = exhaustive argument grids of the property over every source shape of dim 1..3, extents 1..3 (thorough: dim 1..4 extents 1..3 plus dim<=2 with extent 4): "
               "reps/repeats 1..3, shifts in [-2n,2n], pad widths 0..2 per side, index lists with negative and repeated entries, all axes incl. negative and None, "
               "all split points, all window sizes, all diagonal offsets, integer arange/linspace grids, eye/tri grids; plus seeded larger shapes (dim<=4, extents<=6). "
               "Argument grids are enumerated by checks/c04.py; every expected result is computed by TLC from Select.tla. non-trivial = distinct (op, shapes, args)")
    ck.exhaustive = True
    ck.extra.update(table_cases=len(tab), seeded_cases=len(extra))
    ck.assumptions += ["linspace values are compared after multiplication by the case's denominator (exact integers); real-valued arange steps are not exercised",
                       "API combinations nmtools rejects at compile time (per-element repeats with axis=None, shift list with a single axis, expand with axis=None) are outside the driver"]
    for c in cases[:2] + cases[-2:]: ck.sample(c)
    return ck.finish()


def replay(rec):
    return opslib.replay_ops(rec, "drv_select")
