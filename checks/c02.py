"""C02: element access through arrays and views never leaves the operands' storage.
Spec level: the reference semantics reads operands only inside their shape (Base.At asserts it; every law model checks it).
Code level: the accepted-argument halves of the operation tables run on drivers instrumented with AddressSanitizer,
UndefinedBehaviourSanitizer and bounds-checked standard containers; a sanitizer report, a bounds assertion or an
out_of_range exception is a crash event, which the trace specification never accepts.  The SIMD evaluators' packed
accesses and the kernel body's guard cells are covered by C12 and C13."""
import os
import vlib
from vlib import Check
from checks import opslib, c03, c04, c05, c06, c07, c08, c16, c17

SAN = ("-fsanitize=address,undefined", "-fno-sanitize-recover=all", "-D_GLIBCXX_ASSERTIONS", "-fno-omit-frame-pointer")


def crash_only(ck_mismatches):
    return [m for m in ck_mismatches if str(m["kind"]).startswith("crash")]


def run(tier, seed):
    ck = Check("C02", tier, seed)
    quick = tier == "quick"
    os.environ["ASAN_OPTIONS"] = "detect_leaks=0:abort_on_error=1:allocator_may_return_null=1"
    os.environ["UBSAN_OPTIONS"] = "halt_on_error=1:abort_on_error=1"
    for mod, cfg in (("MC_Views", "MC_Views_quick"), ("MC_Select", "MC_Select_quick"), ("MC_Slice", "MC_Slice_quick"), ("MC_Broadcast", "MC_Broadcast_quick")):
        ck.add_mc(vlib.tlc_model_check(mod, cfg, timeout=2400))
    # predicates of the known-finding classes of the value properties: the same inputs crash here too
    ck.preds.update({("c02_" + k[4:]): v for k, v in c04.PREDS.items()})
    ck.preds.update({("c02_" + k): v for k, v in c05.PREDS.items()})
    ck.preds.update(c02_trace_diagonal=c16.trace_diagonal, c02_matmul_1d_operand=c16.matmul_1d_operand)
    step = 3 if quick else 1
    groups = [
        ("drv_views", [c for c in c03.load_cases("quick") if c03.supported(c)][::step] + c03.seeded(ck, 300 if quick else 3000)),
        ("drv_select", c04.table(3, 3, False)[::step] + c04.seeded(ck, 300 if quick else 3000)),
        ("drv_slice", c05.with_enc([c for f in ("axis", "multi") for c in vlib.tlc_generate("GenSlice", "GenSlice_quick", env={"FAM": f}, key_extra=f)])[::step]),
        ("drv_broadcast", c06.expand(c06.load_cases("quick"), seed)[::step]),
        ("drv_reduce", c08.table(3, 3, ck)[::step]),
        ("drv_linalg", c16.table(3, 2)[::step]),
        ("drv_nn", (c17.conv_cases([(3, 3), (4, 3)], [1, 2, 3, 4], False) + c17.pool_cases([(3, 3), (4, 3), (2, 4)], False) + c17.linear_cases())[::step]),
    ]
    specs = [dict(name=n, flags=SAN, tag="_san") for n, _ in groups]
    bins = vlib.build_drivers(specs)
    total = 0
    for (name, cases), drv in zip(groups, bins):
        cases = opslib.number(cases, start=total); total += len(cases)
        before = len(ck.mismatches)
        # want=valid: only arguments the reference accepts are in C02's scope ("accepted, not reported as invalid")
        opslib.run_ops(ck, drv, cases, want="valid", label=name + "_san", describe=lambda c, k: f"{c['op']} (sanitized build): {k}")
        # keep memory-safety failures only: wrong values are the value properties' business
        ck.mismatches[before:] = crash_only(ck.mismatches[before:])
    ck.nontrivial_count = total
    ck.rule = ("spec level: every reference operator reads its operands through Base.At, which asserts that the source multi-index lies inside the operand's shape; TLC evaluates it on every case of the "
               "law models (footprint theorem).  Code level: the accepted-argument cases of the C03/C04/C05/C06/C08/C16/C17 tables (every third in the quick tier) and seeded larger ones are executed "
               "on ASan + UBSan + bounds-checked-libstdc++ builds of the drivers (every element of every result is read, plus eval for programs in C10); only crash events (sanitizer report, bounds "
               "assertion, out_of_range, signal) count here")
    ck.exhaustive = False
    ck.assumptions += ["a per-axis source index that exceeds its extent but stays inside the buffer is not visible to the sanitizers; it changes the element read, which the value properties C03-C08 detect",
                       "no NMTOOLS_VERIF hooks were added to the repository: bounds-checked std containers, std::vector::at (used by nmtools::at) and the sanitizers provide the events",
                       "packed SIMD accesses are validated by C12 (tracing context), kernel-body writes by C13 (guard cells)"]
    ck.trusted += ["AddressSanitizer / UndefinedBehaviourSanitizer of g++ 12 as event sources (a report becomes a crash event; the specification decides)"]
    ck.sample(dict(drivers=[n for n, _ in groups], flags=list(SAN)))
    return ck.finish()


def replay(rec):
    drv = (rec.get("driver") or "drv_views").split("_san")[0].split("-")[0]
    os.environ["ASAN_OPTIONS"] = "detect_leaks=0:abort_on_error=1"
    return opslib.replay_ops(rec, drv, flags=SAN)
