"""C19: the STL-free containers behave like their standard counterparts over any history
(Containers.tla / GenContainers / TraceContainers / drv_containers)."""
import json, os, re, subprocess
import vlib
from vlib import Check, canon

KINDS = ["vector", "static", "small", "small_stl", "array"]
SPEC_KIND = dict(small_stl="small")


def reaches_dynamic_mode(case):
    """small_vector (utl flavour: utl::either<utl::static_vector, utl::vector>) whose history switches to the heap-allocated alternative."""
    if case.get("kind") != "small": return False
    cap = case["cap"]; mode = {}; ln = {}
    for a in case["h"]:
        o = a["o"]; op = a["op"]
        if op == "ctor": mode[o] = "s"; ln[o] = 0
        elif op == "ctor_n": mode[o] = "s" if a["n"] < cap else "d"; ln[o] = a["n"]
        elif op == "ctor_vv": mode[o] = "s"; ln[o] = 2
        elif op in ("copy", "assign"): mode[o] = mode.get(a["p"], "s"); ln[o] = ln.get(a["p"], 0)
        elif op == "push":
            ln[o] = ln.get(o, 0) + 1
            if ln[o] > cap: mode[o] = "d"
        elif op == "resize":
            ln[o] = a["n"]
            if a["n"] > cap: mode[o] = "d"
        if mode.get(o) == "d": return True
    return False


PREDS = dict(c19_small_utl_dynamic=reaches_dynamic_mode)


def export_histories(kind, tier):
    """One history per explored transition of the container machine (TLC, ACTION_CONSTRAINT Emit); cached by spec hash."""
    cfg = f"GenContainers_{kind}_{tier}"
    key = vlib.spec_hash("GenContainers", cfg)[:16]
    path = os.path.join(vlib.GEN, f"{cfg}.{key}.ndjson")
    if not os.path.exists(path):
        r = vlib.tlc("GenContainers", cfg, workers=1, timeout=1400)
        if not r["ok"]:
            raise vlib.Inconclusive("history export failed: " + r["out"][-1500:])
        hs = []
        for line in r["out"].splitlines():
            line = line.strip()
            if line.startswith('"{'):
                hs.append(json.loads(json.loads(line))["h"])
        with open(path + ".tmp", "w") as f:
            for h in hs: f.write(json.dumps(h, separators=(",", ":")) + "\n")
        os.replace(path + ".tmp", path)
        vlib.log(f"[gen] {cfg}: {len(hs)} histories, {r['wall']:.1f}s")
    return [json.loads(l) for l in open(path)]


def random_history(r, kind, cap, length):
    """Seeded long histories over the same alphabet (enabledness tracked with the reference semantics)."""
    live = [False, False]; ln = [0, 0]
    h = []
    for _ in range(length):
        o = r.randrange(2); p = 1 - o if r.random() < 0.8 else o
        opts = []
        if not live[o]:
            opts += ["ctor"] + (["ctor_n", "ctor_vv"] if kind != "array" else [])
            if live[p] and p != o: opts.append("copy")
        else:
            opts += ["dtor"] if r.random() < 0.15 else []
            if live[p]: opts.append("assign")
            if kind != "array": opts += ["push", "push", "resize"]
            if ln[o] > 0: opts += ["write", "write"]
        if not opts: continue
        op = r.choice(opts)
        a = dict(op=op, o=o + 1)
        def setlen(n):
            ln[o] = n
        if op == "ctor": live[o] = True; setlen(cap if kind == "array" else 0)
        elif op == "ctor_n":
            n = r.randint(0, cap + 2); a["n"] = n; live[o] = True; setlen(0 if (kind == "static" and n > cap) else n)
        elif op == "ctor_vv": a["v"] = r.randint(1, 2); a["w"] = r.randint(1, 2); live[o] = True; setlen(2)
        elif op == "copy": a["p"] = p + 1; live[o] = True; setlen(ln[p])
        elif op == "assign": a["p"] = p + 1; setlen(ln[p])
        elif op == "push":
            a["v"] = r.randint(1, 2)
            if not (kind == "static" and ln[o] + 1 > cap) and ln[o] < 40: setlen(ln[o] + 1)
            elif ln[o] >= 40: continue
        elif op == "resize":
            n = r.randint(0, cap + 2); a["n"] = n
            if not (kind == "static" and n > cap): setlen(n)
        elif op == "write": a["i"] = r.randrange(ln[o]); a["v"] = r.randint(1, 2)
        elif op == "dtor": live[o] = False; setlen(0)
        h.append(a)
    return h


OPTION_KINDS = ["maybe", "either", "tuple", "maybe_vec"]


def export_option_histories(kind, tier):
    cfg = f"GenOptions_{kind}_{tier}"
    key = vlib.spec_hash("GenOptions", cfg)[:16]
    path = os.path.join(vlib.GEN, f"{cfg}.{key}.ndjson")
    if not os.path.exists(path):
        r = vlib.tlc("GenOptions", cfg, workers=1, timeout=1400)
        hs = [json.loads(json.loads(l.strip()))["h"] for l in r["out"].splitlines() if l.strip().startswith('"{')]
        if not hs: raise vlib.Inconclusive("option history export failed: " + r["out"][-1200:])
        with open(path + ".tmp", "w") as f:
            for h in hs: f.write(json.dumps(h, separators=(",", ":")) + "\n")
        os.replace(path + ".tmp", path)
        vlib.log(f"[gen] {cfg}: {len(hs)} histories, {r['wall']:.1f}s")
    return [json.loads(l) for l in open(path)]


def maybe_nontrivial_payload(case):
    """maybe<utl::vector<int>>: an engaged optional over a non-trivially-destructible payload (same root as the either finding)"""
    return case.get("kind") == "maybe_vec" and any(a["op"] in ("ctor_val", "assign_val") and a.get("tag") == "left" for a in case.get("h", []))


def run_options(ck, tier):
    drv = vlib.build_driver("drv_options")
    total = 0
    for kind in OPTION_KINDS:
        ck.add_mc(vlib.tlc_model_check("Options", f"MC_Options_{kind}_{tier}", workers=4, timeout=2400))
        hs = export_option_histories(kind, tier)
        cases = [dict(id=i + 1, kind=kind, h=h) for i, h in enumerate(hs)]
        total += len(cases)
        files = vlib.run_driver(drv, cases, ck.workdir, "opt_" + kind)
        mism, st = vlib.validate_traces("TraceOptions", files, cfg=f"TraceOptions_{kind}")
        ck.add_trace_stats(st, len(cases))
        by_id = {c["id"]: c for c in cases}
        seen = set()
        for m in mism:
            ev = m["event"]; case = by_id.get(ev.get("id"), {})
            if ev.get("id") in seen: continue
            seen.add(ev.get("id"))
            k = ev.get("k", len(case.get("h", [])))
            prefix = case.get("h", [])[:k + 1]
            why = m["why"]
            kindf = "crash" if ev.get("e") == "crash" else ("leak" if "ledger" in why or (ev.get("proj") == m["expect"].get("proj") and ev.get("e") == "step") else "state_differs")
            ck.mismatch(canon([kind, prefix[-1] if prefix else None, kindf]), kindf, dict(kind=kind, h=prefix), m["expect"], {x: ev.get(x) for x in ("proj", "allocs", "bad_free", "res")},
                        what=f"utl::{kind}: {why}", driver="drv_options")
        ck.sample(dict(kind=kind, h=hs[min(3, len(hs) - 1)]))
    return total


def run(tier, seed):
    ck = Check("C19", tier, seed)
    ck.preds.update(PREDS)
    ck.preds["c19_maybe_nontrivial_payload"] = maybe_nontrivial_payload
    quick = tier == "quick"
    cap = 2 if quick else 3
    drv = vlib.build_driver("drv_containers")
    total_hist = 0
    for kind in KINDS:
        sk = SPEC_KIND.get(kind, kind)
        ck.add_mc(vlib.tlc_model_check("Containers", f"MC_Containers_{sk}_{tier}", workers=8, timeout=2400))
        hs = export_histories(sk, tier)
        cases = [dict(id=i + 1, kind=kind, cap=cap, elem="int" if i % 5 else "double", h=h) for i, h in enumerate(hs)]
        nrand = 200 if quick else 2000
        for j in range(nrand):
            cases.append(dict(id=len(cases) + 1, kind=kind, cap=cap, elem="int", h=random_history(ck.rng, sk, cap, ck.rng.randint(8, 200))))
        total_hist += len(cases)
        files = vlib.run_driver(drv, cases, ck.workdir, "cont_" + kind)
        mism, st = vlib.validate_traces("TraceContainers", files, cfg=f"TraceContainers_{sk}_{cap}")
        ck.add_trace_stats(st, len(cases))
        by_id = {c["id"]: c for c in cases}
        seen = set()
        for m in mism:
            ev = m["event"]; case = by_id.get(ev.get("id"), {})
            if ev.get("id") in seen: continue          # first divergence of a history; later steps follow from it
            seen.add(ev.get("id"))
            k = ev.get("k", len(case.get("h", [])))
            prefix = case.get("h", [])[:k + 1]
            why = m["why"]
            kindf = "crash" if ev.get("e") == "crash" else ("leak" if "ledger" in why or (ev.get("proj") == m["expect"].get("proj") and ev.get("e") == "step") else "state_differs")
            key = canon([kind, cap, prefix[-1] if prefix else None, kindf])
            ck.mismatch(key, kindf, dict(kind=kind, cap=cap, elem=case.get("elem"), h=prefix), m["expect"], {x: ev.get(x) for x in ("proj", "allocs", "bad_free", "res")},
                        what=f"{kind} (cap {cap}): {why}", driver="drv_containers")
        for c in cases[:1]: ck.sample(dict(kind=kind, cap=cap, h=c["h"]))
    total_hist += run_options(ck, tier)
    ck.nontrivial_count = total_hist
    ck.rule = ("histories = one per explored transition of the container machine (TLC, 2 objects, values {1,2}, capacity/threshold "
               f"{cap}, history length <= {4 if quick else 6}, states identified by sizes, liveness and hidden state), i.e. a transition tour over every (state, action) pair, for "
               "utl::vector, utl::static_vector, small_vector and utl::array with int and double elements, plus seeded random histories of length 8..200; after every action the size and all "
               "elements of both objects and the allocator ledger are compared with the specification; non-trivial = every history (each ends in a distinct transition)")
    ck.exhaustive = True
    ck.assumptions += ["maybe / either / tuple are covered by the option machine (Options.tla): trivially copyable payloads and maybe<utl::vector<int>>; either over non-trivial alternatives is exercised through small_vector",
                       "small_vector's dynamic alternative is std::vector under the default configuration, so its allocations are not in the ledger"]
    return ck.finish()


def replay(rec):
    case = dict(rec["case"]); case["id"] = 1
    if case.get("kind") in OPTION_KINDS:
        drv = vlib.build_driver("drv_options")
        wd = os.path.join(vlib.BUILD, "replay"); os.makedirs(wd, exist_ok=True)
        files = vlib.run_driver(drv, [case], wd, "replay", nproc=1)
        mism, st = vlib.validate_traces("TraceOptions", files, cfg=f"TraceOptions_{case['kind']}")
        print("history:", canon(case["h"]))
        for m in mism[:3]: print("MISMATCH at step", m["event"].get("k"), m["why"], "expected", canon(m["expect"]), "observed", canon({x: m["event"].get(x) for x in ("proj", "allocs")}))
        print("replay:", "mismatch reproduced on the current tree" if mism else "no mismatch on the current tree")
        return 1 if mism else 0
    drv = vlib.build_driver("drv_containers")
    wd = os.path.join(vlib.BUILD, "replay"); os.makedirs(wd, exist_ok=True)
    files = vlib.run_driver(drv, [case], wd, "replay", nproc=1)
    mism, st = vlib.validate_traces("TraceContainers", files, cfg=f"TraceContainers_{SPEC_KIND.get(case['kind'], case['kind'])}_{case['cap']}")
    print("history:", canon(case["h"]))
    for m in mism[:3]:
        print("MISMATCH at step", m["event"].get("k"), m["why"], "\n  expected", canon(m["expect"]), "\n  observed", canon({x: m["event"].get(x) for x in ("proj", "allocs")}))
    print("replay:", "mismatch reproduced on the current tree" if mism else "no mismatch on the current tree")
    return 1 if mism else 0
