"""C12: SIMD evaluation equals scalar evaluation for every size, shape and layout
(ImplSimd.tla loop model; tracing SIMD context + real contexts in drv_simd; TraceSimd)."""
import itertools, os, json
import vlib
from vlib import Check, canon

TRACE = ["trace64", "trace128", "trace256", "trace512"]
REAL = ["sse", "avx", "v128", "v256", "v512"]
LANES = {"trace64": 2, "trace128": 4, "trace256": 8, "trace512": 16, "sse": 4, "avx": 8, "v128": 4, "v256": 8, "v512": 16}


def prod(s):
    p = 1
    for x in s: p *= x
    return p


def reals(r, n, positive=False):
    # (no negative zero among the inputs: max/min-based activations may return either zero for it, which "bit-identical" cannot mean)
    return [abs(v) if v == 0 else v for v in (round(r.uniform(0.1 if positive else -9.0, 9.0), 3) for _ in range(n))]


def ints(r, n, lo=1, hi=3):
    return [float(r.randint(lo, hi)) for _ in range(n)]


def cases_for(ck, quick):
    r = ck.rng
    out = []
    ctxs = TRACE + REAL
    for ctx in ctxs:
        L = LANES[ctx]
        for dtype in ("float", "double"):
            Ld = L if dtype == "float" else max(1, L // 2)
            sizes = list(range(1, 4 * Ld + 2))
            if quick and ctx not in ("trace128", "avx", "sse", "trace256"): sizes = sizes[::3] + [4 * Ld + 1]
            for n in sizes:
                for op in ("sqrt", "ceil", "floor", "relu"):
                    if quick and op in ("ceil", "relu") and n % 2: continue
                    out.append(dict(op=op, ctx=ctx, dtype=dtype, shapes=[[n]], data=[reals(r, n, positive=(op == "sqrt"))], args={}))
                for op in ("relu6", "hardtanh", "leaky_relu", "prelu", "softshrink", "softsign", "hardshrink", "hardswish"):
                    if quick and (n + len(op)) % 3: continue
                    out.append(dict(op=op, ctx=ctx, dtype=dtype, shapes=[[n]], data=[reals(r, n)], args={}))
                for op in ("add", "subtract", "multiply", "divide"):
                    if quick and op in ("subtract", "divide") and n % 2 == 0: continue
                    out.append(dict(op=op, ctx=ctx, dtype=dtype, shapes=[[n], [n]], data=[reals(r, n), reals(r, n, positive=True)], args={}))
                for op in ("reduce_add", "reduce_multiply"):
                    out.append(dict(op=op, ctx=ctx, dtype=dtype, shapes=[[n]], data=[ints(r, n, 1, 2 if op == "reduce_multiply" else 9)], args=dict(axis=[], keepdims=False)))
            # 2-d shapes with every broadcast pattern, extents around the lane count
            exts = sorted({1, 2, Ld - 1, Ld, Ld + 1, 2 * Ld + 1} - {0})
            if quick: exts = sorted({1, Ld, Ld + 1})
            for (m, k) in itertools.product(exts, repeat=2):
                for (sa, sb) in (([m, k], [m, k]), ([m, 1], [1, k]), ([1, k], [m, 1]), ([m, k], [k]), ([m, k], [m, 1]), ([m, k], [1, k]), ([k], [m, k]), ([m, 1], [m, k])):
                    if prod(sa) * 1 > 600: continue
                    op = r.choice(["add", "multiply", "subtract", "divide"])
                    out.append(dict(op=op, ctx=ctx, dtype=dtype, shapes=[sa, sb], data=[reals(r, prod(sa)), reals(r, prod(sb), positive=True)], args={}))
                # n-d reductions over every axis, keepdims on/off
                for ax in (0, 1, -1):
                    for keep in (False, True):
                        if quick and keep and ax != 0: continue
                        out.append(dict(op="reduce_add", ctx=ctx, dtype=dtype, shapes=[[m, k]], data=[ints(r, m * k, 1, 9)], args=dict(axis=[ax], keepdims=keep)))
                if m * k <= 40:
                    out.append(dict(op="reduce_multiply", ctx=ctx, dtype=dtype, shapes=[[m, k]], data=[ints(r, m * k, 1, 2)], args=dict(axis=[r.choice([0, 1])], keepdims=False)))
                if m <= 2 * Ld and k <= 2 * Ld:
                    out.append(dict(op=r.choice(["outer_add", "outer_multiply"]), ctx=ctx, dtype=dtype, shapes=[[m], [k]], data=[reals(r, m), reals(r, k)], args={}))
            for (m, k, p) in ((1, 1, 1), (2, Ld, 2), (3, Ld + 1, 2), (2, 2 * Ld + 1, 3), (Ld, 1, Ld), (1, Ld - 1 if Ld > 1 else 1, 1)):
                out.append(dict(op="matmul", ctx=ctx, dtype=dtype, shapes=[[m, k], [k, p]], data=[ints(r, m * k, -3, 3), ints(r, k * p, -3, 3)], args={}))
            for s in ([2, 3, Ld + 1], [3, Ld, 2]):
                for ax in range(3):
                    out.append(dict(op="reduce_add", ctx=ctx, dtype=dtype, shapes=[s], data=[ints(r, prod(s), 1, 9)], args=dict(axis=[ax], keepdims=False)))
    return out


def multiply_reduce(case):
    return case.get("op") == "reduce_multiply"


BIN = ("add", "subtract", "multiply", "divide")


def binary_rank_mismatch(c):
    return c.get("op") in BIN and len(c["shapes"][0]) != len(c["shapes"][1])


def binary_column_with_1x1(c):
    if c.get("op") not in BIN: return False
    a, b = c["shapes"]
    def col(s): return len(s) == 2 and s[1] == 1 and s[0] > 1
    def one(s): return s == [1, 1]
    return (col(a) and one(b)) or (one(a) and col(b))


def matmul_k1(c):
    return c.get("op") == "matmul" and c["shapes"][0][1] == 1


def run(tier, seed):
    ck = Check("C12", tier, seed)
    pass  # no open findings
    quick = tier == "quick"
    ck.add_mc(vlib.tlc_model_check("ImplSimd", "MC_ImplSimd", workers=4))
    cases = cases_for(ck, quick)
    for i, c in enumerate(cases): c["id"] = i + 1
    drv = vlib.build_driver("drv_simd", flags=("-mavx2", "-mfma"))
    files = vlib.run_driver(drv, cases, ck.workdir, "simd")
    mism, st = vlib.validate_traces("TraceSimd", files)
    ck.add_trace_stats(st, len(cases))
    ck.checker_cmds.append("TRACE=<events> tlc -config spec/TraceSimd.cfg spec/TraceSimd.tla")
    for m in mism:
        ev = m["event"]; res = ev.get("res", {})
        case = {k: v for k, v in ev.items() if k not in ("res", "e", "data")}
        kind = "crash" if (res.get("crash") or "scalar" not in res) else ("oob_access" if "access" in m["why"] else "simd_differs")
        key = canon([case.get("op"), case.get("ctx"), case.get("dtype"), case.get("shapes"), case.get("args"), kind])
        ck.mismatch(key, kind, dict(case, data=ev.get("data")), m["expect"], {k: res.get(k) for k in ("simd", "acc", "crash")},
                    what=f"{case.get('op')} with context {case.get('ctx')} ({case.get('dtype')}): {m['why']}", driver="drv_simd")
    ck.nontrivial_count = len({canon([c["op"], c["ctx"], c["dtype"], c["shapes"], c["args"]]) for c in cases if prod(c["shapes"][0]) % LANES[c["ctx"]] != 0})
    ck.rule = ("cases = for each context (tracing context with 64/128/256/512-bit registers, x86 SSE, x86 AVX, vector extensions 128/256/512) x float/double: every element count 1..4*lanes+1 for "
               "sqrt/ceil/floor/relu, add/subtract/multiply/divide and add/multiply reductions; 2-d shapes with extents around the lane count in all eight broadcast patterns; n-d reductions over "
               "every axis with keepdims on/off and axis=None; outer forms; matmul with contraction lengths around the lane count; element-wise data are random reals (bit identity required), "
               "reduction/matmul data small integers (exact under any association); the tracing context logs every packed load/store of the real evaluator, validated to lie inside its buffer; "
               "non-trivial = distinct cases whose first operand size is not a multiple of the lane count")
    ck.exhaustive = False
    ck.assumptions += ["inputs contain no negative zero; for reductions and matmul (equal up to re-association) the sign of a zero result is not compared"]
    ck.assumptions += ["SIMDe AVX-512 context and column-major operands (statically rejected for matmul, ignored elsewhere) are not driven", "accesses to evaluator-internal temporaries (not operand/result buffers) are not range-checked"]
    for c in cases[:2] + cases[-2:]: ck.sample({k: v for k, v in c.items() if k != "data"})
    return ck.finish()


def replay(rec):
    case = dict(rec["case"]); case["id"] = 1
    drv = vlib.build_driver("drv_simd", flags=("-mavx2", "-mfma"))
    wd = os.path.join(vlib.BUILD, "replay"); os.makedirs(wd, exist_ok=True)
    files = vlib.run_driver(drv, [case], wd, "replay", nproc=1)
    mism, st = vlib.validate_traces("TraceSimd", files)
    ev = [json.loads(l) for l in open(files[0])][0]
    print("case:", canon({k: v for k, v in case.items() if k != "data"})); print("observed:", canon(ev.get("res"))[:600])
    print("replay:", "mismatch reproduced on the current tree" if mism else "no mismatch on the current tree")
    return 1 if mism else 0
