"""C05: slicing follows Python/NumPy basic indexing (Slice.tla / MC_Slice / TraceOps / drv_slice)."""
import vlib
from vlib import Check
from checks import opslib


def full(p):
    return p["k"] == "s" and p["start"] and p["stop"] and p["step"]


def reduced_ok(p):
    if p["k"] in "ie": return True
    pat = (bool(p["start"]), bool(p["stop"]), bool(p["step"]))
    return pat in ((True, True, True), (False, False, True), (False, False, False))


def encodings(parts):
    """Encodings under which the driver can express this specification."""
    n_ell = sum(1 for p in parts if p["k"] == "e")
    encs = []
    if n_ell <= 1 and (len(parts) == 1 or all(reduced_ok(p) for p in parts)) and len(parts) <= 3:
        encs += ["packed", "variadic"]
        if len(parts) > 1 or parts[0]["k"] in "ie" or full(parts[0]):
            encs.append("mutable")
        if len(parts) == 1 and parts[0]["k"] == "s" and not parts[0]["step"]:
            encs.append("packed2")
    if all(p["k"] in "ie" or full(p) for p in parts):
        encs.append("dyn")
    if all(full(p) for p in parts):
        encs.append("dynarr")
    return encs


def with_enc(cases):
    out = []
    for c in cases:
        for e in encodings(c["args"]["parts"]):
            if c["op"] == "slice_index" and e in ("variadic", "mutable"):
                continue            # the variadic front end exists at the view level only
            out.append(dict(op=c["op"], shapes=c["shapes"], args=dict(c["args"], enc=e)))
    return out


def seeded(ck, n):
    r = ck.rng
    out = []
    for _ in range(n):
        d = r.randint(1, 4)
        shape = [r.randint(1, 7) for _ in range(d)]
        m = r.randint(1, min(d, 3))
        parts = []
        for j in range(m):
            ext = shape[j] if j < d else 1
            t = r.random()
            if t < 0.25:
                parts.append(dict(k="i", i=r.randint(-ext, ext - 1)))
            else:
                opt = lambda lo, hi: [] if r.random() < 0.3 else [r.randint(lo, hi)]
                step = [] if r.random() < 0.4 else [r.choice([-3, -2, -1, 1, 2, 3])]
                parts.append(dict(k="s", start=opt(-ext - 2, ext + 2), stop=opt(-ext - 2, ext + 2), step=step))
        if r.random() < 0.4 and m < 3:
            parts.insert(r.randint(0, len(parts)), dict(k="e"))
        if r.random() < 0.5:       # make expressible in the reduced packed menu / dynamic encoding
            for p in parts:
                if p["k"] == "s" and not reduced_ok(p):
                    ext = 4
                    p["start"] = p["start"] or [0]; p["stop"] = p["stop"] or [r.randint(-ext, ext)]; p["step"] = p["step"] or [1]
        out.append(dict(op="slice", shapes=[shape], args=dict(parts=parts)))
    return out


def n_ell(parts):
    return sum(1 for p in parts if p["k"] == "e")


def fewer_parts_no_ellipsis(case):
    parts = case["args"]["parts"]
    return case.get("op") in ("slice", "slice_index") and n_ell(parts) == 0 and len(parts) < len(case["shapes"][0])


def ellipsis_for_zero_axes(case):
    """a trailing ellipsis that stands for zero axes, in the packed / variadic encodings (the list encodings are right)"""
    parts = case["args"]["parts"]
    return (case.get("op") in ("slice", "slice_index") and n_ell(parts) == 1 and len(parts) - 1 == len(case["shapes"][0])
            and parts[-1]["k"] == "e" and case["args"].get("enc") in ("packed", "packed2", "variadic"))


PREDS = dict()      # no open findings (the two input classes were repaired: ec183ca, 9eb30a0)


def describe(case, kind):
    parts = case["args"]["parts"]
    if len(parts) == 1 and parts[0]["k"] == "s":
        return f"a[start:stop:step] on one axis: {kind}"
    return f"multi-axis slice: {kind}"


def run(tier, seed):
    ck = Check("C05", tier, seed)
    ck.preds.update(PREDS)
    ck.add_mc(vlib.tlc_model_check("MC_Slice", "MC_Slice_" + tier))
    table = []
    for f in ("axis", "multi"):
        table += vlib.tlc_generate("GenSlice", "GenSlice_" + tier, env={"FAM": f}, key_extra=f)
    big = []
    for f in ("bigaxis", "bigmulti"):
        big += vlib.tlc_generate("GenSlice", "GenSlice_" + tier, env={"FAM": f}, key_extra=f)
    extra = seeded(ck, 4000 if tier == "quick" else 50000)
    cases = opslib.number(with_enc(table + extra + big))
    drv = vlib.build_driver("drv_slice")
    opslib.run_ops(ck, drv, cases, want="valid", label="slice", describe=describe)
    ck.nontrivial_count = len({vlib.canon([c["shapes"], c["args"]["parts"]]) for c in cases
                               if any(p["k"] == "s" and (p["start"] or p["stop"] or p["step"]) for p in c["args"]["parts"])})
    ck.rule = ("cases = TLC export of the per-axis family (every n in 1..N, start/stop in [-(n+2), n+2] or omitted, step in {-3..-1,1..3} or omitted; quick N=4, thorough N=6), "
               "a multi-axis family over a menu of parts with the ellipsis in every position, seeded multi-axis specifications, and an index-math family (op slice_index: "
               "index::apply_shape_slice / index::apply_slice on a shape without an array, extents 2^24+1 .. 2^31-9 in 1-3 axes, bounds around 0, n/2, n of either sign, every step in -3..3, "
               "result shape plus the source index of the first / middle / last result index); every case runs under every encoding "
               "that can express it (packed tuple, (start,stop) pairs, variadic front end of view::slice, variadic front end of view::mutable_slice read back, list-of-either, list of array<int,3>); non-trivial = distinct (shape, spec) with at least one non-default range part")
    ck.exhaustive = True
    ck.extra.update(table_cases=len(table), seeded_cases=len(extra), big_extent_cases=len(big), events_per_encoding=True)
    ck.assumptions += ["None-ness of slice parts is a compile-time property in nmtools: multi-part packed specifications are limited to the part types int, ellipsis, (None,None,None), (None,None,step), (start,stop,step)",
                       "extents above 2^24 are exercised at the index-math level only (shape function and index map without an array behind them)"]
    for c in cases[:2] + cases[-2:]: ck.sample(c)
    return ck.finish()


def replay(rec):
    return opslib.replay_ops(rec, "drv_slice")
