"""C07: element-wise functions apply the scalar operation to broadcast operands (Ufunc.tla / TraceOps / drv_ufunc)."""
import itertools
import vlib
from vlib import Check
from checks import opslib

BIN = ["add", "subtract", "multiply", "divide", "maximum", "minimum", "fmax", "fmin", "equal", "not_equal", "less", "less_equal", "greater", "greater_equal",
       "logical_and", "logical_or", "logical_xor", "bitwise_and", "bitwise_or", "bitwise_xor", "left_shift", "right_shift"]
SCALAR_OK = {"mix", "add", "subtract", "multiply", "less", "maximum"}
UN = ["mix1", "negative", "positive", "square", "fabs", "logical_not", "invert", "signbit", "relu", "relu6"]
OUTER = ["outer_mix", "outer_add", "outer_subtract", "outer_multiply"]
# wiring-revealing operand shape pairs: rank extension left/right, size-1 middle axes, stretched both ways
REVEAL = [([2, 3], [2, 3]), ([2, 3], [3]), ([3], [2, 3]), ([2, 1, 3], [2, 3]), ([2, 3], [2, 1, 3]), ([3, 1], [1, 2]), ([1, 2], [3, 1]),
          ([2, 1, 2], [1, 3, 1]), ([4], [1]), ([1], [4]), ([2, 2, 2], [2]), ([1, 1, 3], [2, 1, 1])]


def prod(s):
    p = 1
    for x in s: p *= x
    return p


def data_for(op, shapes, r):
    """Element values inside the operation's domain: negatives and zero where allowed."""
    out = []
    for j, s in enumerate(shapes):
        n = prod(s)
        if op in ("left_shift", "right_shift"):
            vals = [r.randint(0, 200) for _ in range(n)] if j == 0 else [r.randint(0, 5) for _ in range(n)]
        elif op in ("divide", "mod") and j == 1:
            vals = [r.choice([-7, -3, -2, -1, 1, 2, 3, 5, 11]) for _ in range(n)]
        elif op in ("bitwise_and", "bitwise_or", "bitwise_xor"):
            vals = [r.randint(0, 255) for _ in range(n)]
        elif op == "invert":
            vals = [r.randint(0, 255) for _ in range(n)]
        else:
            vals = [r.choice([-9, -4, -1, 0, 0, 1, 2, 7, 13, 100]) for _ in range(n)]
        out.append(vals)
    return out


def table(tier, ck):
    cases = []
    pairs = vlib.tlc_generate("GenBroadcast", "GenBroadcast_" + tier, env={"FAM": "pairs"}, key_extra="pairs", timeout=1400)
    for c in pairs:
        a, b = c["shapes"]
        if not a and not b: continue
        if prod(a) * prod(b) > 4096: continue
        cases.append(dict(op="mix", shapes=[a, b], args=dict(none=True)))
    small = [[1], [2], [3], [1, 2], [2, 1], [2, 2], [2, 3], [2, 1, 2]]
    for a, b in itertools.product(small, repeat=2):
        for op in OUTER: cases.append(dict(op=op, shapes=[a, b], args=dict(none=True)))
    r = ck.rng
    for op in BIN:
        for a, b in REVEAL:
            cases.append(dict(op=op, shapes=[a, b], args=dict(none=True), data=data_for(op, [a, b], r)))
        if op in SCALAR_OK:
            for a in ([2, 3], [3], [2, 1, 2]):
                cases.append(dict(op=op, shapes=[a, []], args=dict(none=True), data=data_for(op, [a, [1]], r)))
                cases.append(dict(op=op, shapes=[[], a], args=dict(none=True), data=data_for(op, [[1], a], r)))
    for a in ([2, 3], [3], [2, 1, 2]):
        cases.append(dict(op="mix", shapes=[a, []], args=dict(none=True)))
        cases.append(dict(op="mix", shapes=[[], a], args=dict(none=True)))
    for op in UN:
        for a in ([1], [4], [2, 3], [2, 1, 2], [3, 2, 2], [1, 2, 1, 2]):
            cases.append(dict(op=op, shapes=[a], args=dict(none=True), data=data_for(op, [a], r)))
    return cases


ETYPES = {"i8": [100, 127, -128, -100, 3, 0], "u8": [200, 255, 0, 17, 128, 1], "i16": [300, -300, 150, -32, 7, 0], "u16": [300, 256, 0, 129, 255, 2],
          "i64": [1000, -1000, 4096, -7, 0, 12], "f32": [3, -2, 0, 100, -128, 7], "f64": [5, -9, 0, 200, 1, -1]}


def typed_cases(r):
    """operand element types: every pair of {int8, uint8, int16, uint16, int64, float, double} with values near the narrow types' limits; the result
    must be what the C++ scalar operation yields on the promoted operands (no wrap-around in the operands' element type)"""
    out = []
    for ta in ETYPES:
        for tb in ETYPES:
            for op in ("add", "subtract", "multiply", "less", "maximum"):
                for sa, sb in (([6], [6]), ([2, 3], [3])):
                    da = [r.choice(ETYPES[ta]) for _ in range(prod(sa))]; db = [r.choice(ETYPES[tb]) for _ in range(prod(sb))]
                    out.append(dict(op=op, shapes=[sa, sb], data=[da, db], args=dict(etypes=[ta, tb])))
        for op in ("negative", "square"):
            if ta.startswith("u") and op == "negative": continue         # negating an unsigned value
            out.append(dict(op=op, shapes=[[6]], data=[list(ETYPES[ta])], args=dict(etypes=[ta])))
    return out


def where_cases():
    """Ternary where(c, x, y): broadcastable triples; condition values -1 / 0 / 1 (int) and -0.5 / 0 / 0.5 (float): true iff non-zero."""
    small = [[1], [3], [4], [1, 3], [2, 1], [2, 3], [3, 1], [2, 1, 3], [1, 1, 1, 3]]
    out = []
    for c, x, y in itertools.product(small, repeat=3):
        dims = max(len(c), len(x), len(y))
        if all(len({t[-i] for t in (c, x, y) if len(t) >= i} - {1}) <= 1 for i in range(1, dims + 1)):
            out.append(dict(op="where", shapes=[c, x, y], args=dict(cond="int")))
            out.append(dict(op="where", shapes=[c, x, y], args=dict(cond="float")))
    return out


# ---- real-valued functions: name -> (domain predicate on k/4, mode)
DEN = 4
F_EXACT1 = {"sin": None, "cos": None, "tan": None, "arcsin": lambda x: -1 <= x <= 1, "arccos": lambda x: -1 <= x <= 1, "arctan": None, "sinh": None, "cosh": None, "tanh": None,
            "arcsinh": None, "arccosh": lambda x: x >= 1, "arctanh": lambda x: -1 < x < 1, "exp": None, "exp2": None, "expm1": None, "log": lambda x: x > 0, "log2": lambda x: x > 0,
            "log10": lambda x: x > 0, "log1p": lambda x: x > -1, "sqrt": lambda x: x >= 0, "cbrt": None, "ceil": None, "floor": None, "trunc": None, "rint": None, "fabs": None,
            "reciprocal": lambda x: x != 0, "square": None, "negative": None, "positive": None, "isfinite": None, "isinf": None, "isnan": None, "signbit": None}
F_APPROX1 = {"deg2rad": [], "radians": [], "rad2deg": [], "degrees": [], "relu": [], "relu6": [], "sigmoid": [], "silu": [], "log_sigmoid": [], "softsign": [], "tanhshrink": [], "mish": [],
             "hardswish": [], "selu": [], "elu": [[], [0.5], [2.5]], "celu": [[], [2.0], [0.5]], "leaky_relu": [[], [0.25], [2.0], [-0.5]], "prelu": [[], [0.5], [1.5], [-0.5]],
             "hardshrink": [[], [1.0], [0.25]], "softshrink": [[], [1.0], [0.25]], "hardtanh": [[], [-0.5, 1.5], [1.0, 3.0]], "softplus": [[], [2.0, 3.0], [0.5, 1.0]]}
# parameter menus take values on both sides of every regime boundary of the formula (slope below / above 1 and negative, threshold above / below
# the data range, clamp interval containing / excluding 0): a shortcut such as max(x, slope*x) is right for one regime only (seed C07c)
F_EXACT2 = {"arctan2": None, "hypot": None, "power": lambda x, y: x > 0, "fmod": lambda x, y: y != 0, "fmin": None, "fmax": None, "maximum": None, "minimum": None,
            "add": None, "subtract": None, "multiply": None, "divide": lambda x, y: y != 0, "ldexp": None}


def fufunc_cases(ck, tier):
    r = ck.rng
    out = []
    def ks(n, dom, lo=-12, hi=28):
        pool = [k for k in range(lo, hi + 1) if dom is None or dom(k / DEN)]
        return [r.choice(pool) for _ in range(n)]
    shapes1 = [[5], [2, 3], [2, 1, 2]] if tier == "quick" else [[5], [2, 3], [2, 1, 2], [3, 2, 2], [1, 7]]
    for name, dom in F_EXACT1.items():
        for dt in ("float", "double"):
            for s in shapes1:
                out.append(dict(op="fufunc", shapes=[s], data=[ks(prod(s), dom)], args=dict(name=name, mode="exact", dtype=dt, den=DEN)))
    for name, plist in F_APPROX1.items():
        for p_ in (plist or [[]]):
            for s in shapes1:
                c = dict(op="fufunc", shapes=[s], data=[ks(prod(s), None, -24, 24)], args=dict(name=name, mode="approx", dtype="double", den=DEN, tol=4))
                if p_: c["args"]["p"] = p_
                out.append(c)
    pairs = REVEAL[:7] if tier == "quick" else REVEAL
    for name, dom in F_EXACT2.items():
        for dt in ("float", "double"):
            for a, b in pairs:
                for _ in range(40):     # draw operand values until every broadcast pair lies in the domain
                    ka = ks(prod(a), None, -8, 12)
                    kb = [r.randint(-3, 3) for _ in range(prod(b))] if name == "ldexp" else ks(prod(b), None, -8, 12)
                    if dom is None or all(dom(x / DEN, y / DEN) for x in ka for y in kb): break
                else:
                    ka = [abs(k) + 1 for k in ka]; kb = [abs(k) + 1 for k in kb]
                out.append(dict(op="fufunc", shapes=[a, b], data=[ka, kb], args=dict(name=name, mode="exact", dtype=dt, den=DEN)))
    return out


def seeded(ck, n):
    r = ck.rng
    out = []
    for _ in range(n):
        d = r.randint(1, 5)
        base = [r.randint(1, 5) for _ in range(d)]
        if prod(base) > 600: continue
        def sub():
            dd = r.randint(1, d)
            return [1 if r.random() < 0.35 else x for x in base[d - dd:]]
        a, b = sub(), sub()
        op = r.choice(BIN + ["mix"] * 6)
        c = dict(op=op, shapes=[a, b], args=dict(none=True))
        if op != "mix": c["data"] = data_for(op, [a, b], r)
        out.append(c)
    return out


def run(tier, seed):
    ck = Check("C07", tier, seed)
    ck.add_mc(vlib.tlc_model_check("MC_Ufunc", "MC_Ufunc_" + tier, timeout=2400))
    tab = table(tier, ck)
    extra = seeded(ck, 1500 if tier == "quick" else 15000)
    tc = typed_cases(ck.rng)
    cases = opslib.number(tab + extra + tc)
    ck.extra["typed_cases"] = len(tc)
    drv = vlib.build_driver("drv_ufunc")
    opslib.run_ops(ck, drv, cases, want="valid", label="ufunc", describe=lambda c, k: f"ufunc {c['op']} {k}")
    fc = opslib.number(fufunc_cases(ck, tier), start=len(cases))
    opslib.run_ops(ck, vlib.build_driver("drv_fufunc"), fc, want="valid", label="fufunc", describe=lambda c, k: f"real-valued {c['args']['name']} ({c['args']['dtype']}, {c['args']['mode']}): {k}")
    cases += fc
    ck.extra["real_valued_functions"] = len(F_EXACT1) + len(F_APPROX1) + len(F_EXACT2)
    wc = opslib.number(where_cases(), start=len(cases))
    opslib.run_ops(ck, vlib.build_driver("drv_select"), wc, want="valid", label="where", describe=lambda c, k: f"where {k}")
    cases += wc
    ck.nontrivial_count = len({vlib.canon([c["op"], c["shapes"]]) for c in cases if len(c["shapes"]) > 1 and c["shapes"][0] != c["shapes"][1]})
    ck.rule = ("wiring: the recording operation mix(x,y)=(31x+17y+7) mod 10007 (non-commutative) through the generic ufunc machinery on every pair of shapes of the C06 scope "
               "(TLC export, compatible and incompatible, array and scalar operands) and outer on pairs of small shapes; every integer-computable named ufunc "
               f"({len(BIN)} binary, {len(UN)} unary incl. relu/relu6, 3 outer forms) on 12 wiring-revealing shape pairs with negative, zero and positive data inside the operation's domain, "
               "result element class (bool/int/float) compared; every pair of operand element types from {int8, uint8, int16, uint16, int64, float, double} with values near the narrow types' limits "
               "under add / subtract / multiply / less / maximum (+ negative / square): the value must be the promoted C++ result; seeded larger operands; ternary where(c,x,y) on every broadcastable triple of 9 shapes with integer (-1/0/1) and floating (-0.5/0/0.5) conditions. non-trivial = distinct (op, shapes) with different operand shapes")
    ck.exhaustive = True
    ck.extra.update(table_cases=len(tab), seeded_cases=len(extra), ufuncs_named=len(BIN) + len(UN) + len(OUTER))
    ck.assumptions += ["transcendental / float-only ufuncs and activations are not interpreted by TLC: their scalar functors are outside this check (the shared wiring they use is covered by mix)",
                       "integer division/modulo follow the C++ operators the library applies (truncation), not NumPy's floor semantics, which the property's 'scalar operation' refers to",
                       "clip with three array operands does not compile for run-time shapes and is not driven"]
    for c in cases[:2] + cases[-2:]: ck.sample(c)
    return ck.finish()


def replay(rec):
    op = rec["case"].get("op")
    return opslib.replay_ops(rec, "drv_select" if op == "where" else ("drv_fufunc" if op == "fufunc" else "drv_ufunc"))
