"""C18: isequal / isclose are exact comparison oracles (Compare.tla / MC_Compare / TraceOps / drv_compare, assert and NDEBUG builds)."""
import itertools
import vlib
from vlib import Check
from checks import opslib


def prod(s):
    p = 1
    for x in s: p *= x
    return p


def shapes_of(dmax, emax):
    for d in range(1, dmax + 1):
        for s in itertools.product(range(1, emax + 1), repeat=d):
            yield list(s)


def nd(shape, bump=None, delta=100):
    el = [p + 1 for p in range(prod(shape))]
    if bump is not None and bump < len(el): el[bump] += delta
    return dict(t="nd", shape=shape, elems=el)


def table(D, E):
    cases = []
    S = list(shapes_of(D, E))
    def C(op, a, b, form, **kw):
        cases.append(dict(op=op, shapes=[], args=dict(a=a, b=b, form=form, **kw)))
    for sa in S:
        for sb in S:
            for form in ("dyn_dyn", "view_dyn", "hybrid_dyn"):
                if form != "dyn_dyn" and (hash((tuple(sa), tuple(sb))) % 3): continue
                C("isequal", nd(sa), nd(sb), form)
                C("isclose", nd(sa), nd(sb), form, eps4=2)
        # element perturbation at every position
        for k in range(prod(sa)):
            C("isequal", nd(sa), nd(sa, k), "dyn_dyn")
            C("isequal", nd(sa, k), nd(sa), "view_dyn")
            C("isclose", nd(sa), nd(sa, k, 1), "dyn_dyn", eps4=2)     # differs by a quarter: close for eps 0.5
            C("isclose", nd(sa), nd(sa, k, 3), "dyn_dyn", eps4=2)     # differs by 0.75: not close
        # optionals and tuples
        for ha, hb in itertools.product((False, True), repeat=2):
            C("isequal", dict(t="maybe", has=ha, val=nd(sa)), dict(t="maybe", has=hb, val=nd(sa)), "maybe_maybe")
            C("isequal", dict(t="maybe", has=ha, val=nd(sa)), dict(t="maybe", has=hb, val=nd(sa, 0)), "maybe_maybe")
            C("isclose", dict(t="maybe", has=ha, val=nd(sa)), dict(t="maybe", has=hb, val=nd(sa)), "maybe_maybe", eps4=2)
            C("isclose", dict(t="maybe", has=ha, val=nd(sa)), dict(t="maybe", has=hb, val=nd(sa, 0, 3)), "maybe_maybe", eps4=2)
            # the same through apply_isequal / apply_isclose (default eps 1e-6: on quarters, close iff equal, i.e. eps4 = 1)
            for op, e4 in (("isequal", {}), ("isclose", dict(eps4=1))):
                C(op, dict(t="maybe", has=ha, val=nd(sa)), dict(t="maybe", has=hb, val=nd(sa)), "maybe_maybe", apply=True, **e4)
                C(op, dict(t="maybe", has=ha, val=nd(sa)), dict(t="maybe", has=hb, val=nd(sa, 0)), "maybe_maybe", apply=True, **e4)
        for sb in S[:6]:
            for op, e4 in (("isequal", {}), ("isclose", dict(eps4=1))):
                C(op, nd(sa), nd(sb), "dyn_dyn", apply=True, **e4)
                C(op, dict(t="tuple", items=[nd(sa), nd(sb)]), dict(t="tuple", items=[nd(sa), nd(sb)]), "tuple", apply=True, **e4)
                C(op, dict(t="tuple", items=[nd(sa), nd(sb)]), dict(t="tuple", items=[nd(sa), nd(sb, 0)]), "tuple", apply=True, **e4)
                C(op, dict(t="tuple", items=[nd(sa), nd(sb)]), dict(t="tuple", items=[nd(sa), nd(sb)]), "list", apply=True, **e4)
                C(op, dict(t="tuple", items=[nd(sa), nd(sb)]), dict(t="tuple", items=[nd(sa), nd(sb, 0)]), "list", apply=True, **e4)
                C(op, dict(t="tuple", items=[nd(sa), nd(sb)]), dict(t="tuple", items=[nd(sa)]), "list", apply=True, **e4)
                C(op, dict(t="tuple", items=[nd(sa)]), dict(t="tuple", items=[nd(sa), nd(sb)]), "list", apply=True, **e4)
            C("isequal", dict(t="tuple", items=[nd(sa), nd(sb)]), dict(t="tuple", items=[nd(sa), nd(sb)]), "tuple")
            C("isequal", dict(t="tuple", items=[nd(sa), nd(sb)]), dict(t="tuple", items=[nd(sa), nd(sb, 0)]), "tuple")
            C("isequal", dict(t="tuple", items=[nd(sa), nd(sb)]), dict(t="tuple", items=[nd(sb), nd(sa)]), "tuple")
    # index arrays: every pair of lengths 0..4 (prefix / longer), perturbation at every position, several container pairings
    for la in range(0, 5):
        for lb in range(0, 5):
            x = [i + 1 for i in range(la)]; y = [i + 1 for i in range(lb)]
            for form in ("vec_vec", "vec_sv", "sv_vec", "arr3_vec", "vec_arr3"):
                if form == "arr3_vec" and la != 3: continue
                if form == "vec_arr3" and lb != 3: continue
                C("isequal", dict(t="idx", v=x), dict(t="idx", v=y), form)
                for k in range(lb):
                    y2 = list(y); y2[k] += 7
                    C("isequal", dict(t="idx", v=x), dict(t="idx", v=y2), form)
    # variants over (scalar, n-d array): same / different active alternative, against each other and against plain values
    def ei(tag, val): return dict(t="either", tag=tag, val=val)
    alts = [ei("L", dict(t="num", v=3)), ei("L", dict(t="num", v=4)), ei("R", nd([2])), ei("R", nd([2], 1)), ei("R", nd([1, 2])), ei("R", nd([3]))]
    plains = [dict(t="num", v=3), dict(t="num", v=5), nd([2]), nd([2], 0), nd([2, 1])]
    for x in alts:
        for y in alts:
            C("isequal", x, y, "either_either")
            C("isclose", x, y, "either_either", eps4=2)
        for y in plains:
            C("isequal", x, y, "either_plain"); C("isequal", y, x, "plain_either")
            C("isclose", x, y, "either_plain", eps4=2); C("isclose", y, x, "plain_either", eps4=2)
    for v in range(-2, 3):
        for w in range(-2, 3):
            C("isequal", dict(t="num", v=v), dict(t="num", v=w), "num")
            C("isclose", dict(t="num", v=4 * v), dict(t="num", v=4 * w + 1), "num", eps4=2)
    return cases


def run(tier, seed):
    ck = Check("C18", tier, seed)
    quick = tier == "quick"
    ck.add_mc(vlib.tlc_model_check("MC_Compare", "MC_Compare_" + tier, timeout=2400))
    tab = table(2, 3) if quick else table(3, 3)
    cases = opslib.number(tab)
    for flags, tag in (((), ""), (("-DNDEBUG",), "_ndebug")):
        drv = vlib.build_driver("drv_compare", flags=flags, tag=tag)
        opslib.run_ops(ck, drv, [dict(c, cfg="ndebug" if tag else "assert") for c in cases], want="all", label="cmp" + tag,
                       describe=lambda c, k: f"{c['op']} ({c['args']['form']}, {c.get('cfg')} build): {k}")
    ck.nontrivial_count = len({vlib.canon(c["args"]) for c in cases if c["args"]["a"] != c["args"]["b"]})
    ck.rule = ("cases = all pairs of arrays of dim 1..2 (thorough 1..3), extents 1..3: same shape, same size but different shape, different sizes; element perturbation at every position "
               "(for isclose by a quarter and by three quarters against eps 0.5); index arrays of every pair of lengths 0..4 (prefix / longer) in vector, static_vector and std::array pairings; "
               "optionals in all four presence combinations; tuples; scalars; lhs as dynamic array, reshape view or bounded (hybrid) array; every case in a build with assertions and in a -DNDEBUG "
               "build (an assertion abort is a crash event, not 'returns false'); non-trivial = distinct operand pairs that differ")
    ck.exhaustive = True
    ck.assumptions += ["either-typed operands and zero-dimensional arrays are not driven", "out-of-range reads are visible as crash events only where they trap (std::vector::at throws); no sanitizer build in this tier"]
    for c in cases[:2] + cases[-2:]: ck.sample(c)
    return ck.finish()


def replay(rec):
    flags = ("-DNDEBUG",) if rec["case"].get("cfg") == "ndebug" else ()
    return opslib.replay_ops(rec, "drv_compare", flags=flags)
