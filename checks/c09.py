"""C09: results are independent of container kind and of compile- vs run-time knowledge.
The same values run through every kind (drv_config) and are validated against the single reference (TraceOps);
the run-time kinds additionally run the full tables of C01/C05/C06/C20 (those checks are part of this property's evidence)."""
import json, os
import vlib
from vlib import Check, canon
from checks import opslib

CASES = [("index", n) for n in ("s232", "s31", "s4", "s1231", "s25")] + [("pairs", n) for n in ("p1", "p2", "p3", "p4", "p5", "p6")] + \
        [("reshape", n) for n in ("r1", "r2", "r3", "r4")] + [("views", n) for n in ("raw", "nested", "fixed", "hybrid", "dynamic", "nd_dyn", "nd_const", "nd_fixdim", "nd_bounded")]


KIND_NAMES = ["fixed", "hybrid", "dynamic", "nested_arr", "nested_vec"] + [f"{s}_{b}" for s in ("cs", "fs", "hs", "ds", "ls") for b in ("fb", "hb", "db")] + ["dtype"]
KIND_SHAPES = {0: [2, 3], 1: [1, 2, 3], 2: [1, 2, 1, 3], 3: [2, 1, 3, 1], 4: [6], 5: [2, 2, 2], 6: [3, 1], 7: [3, 2], 8: [4, 1, 2]}


def cast_nested_vec(case):
    return case.get("name") == "nested_vec"


def kinds_matrix(ck, tier):
    """Every array kind (cast) x a menu of views with ct / rt arguments x compile-time shapes (drv_kinds, one binary per shape)."""
    sids = [0, 1, 2, 4, 6] if tier == "quick" else sorted(KIND_SHAPES)
    drvs = vlib.build_drivers([dict(name="drv_kinds", flags=("-O0", f"-DSHAPE_ID={sid}"), tag=f"_s{sid}") for sid in sids])
    n = 0
    for sid, drv in zip(sids, drvs):
        cases = [dict(id=sid * 100 + i + 1, name=nm_, shape=KIND_SHAPES[sid]) for i, nm_ in enumerate(KIND_NAMES)]
        files = vlib.run_driver(drv, cases, ck.workdir, f"kinds_s{sid}", nproc=8)
        mism, st = vlib.validate_traces("TraceOps", files)
        ck.add_trace_stats(st, len(cases)); n += st["events"]
        by_id = {c["id"]: c for c in cases}
        for m in mism:
            ev = m["event"]; exp = m["expect"]; got = ev.get("res", {})
            if "op" not in ev:      # the whole case died
                case = dict(by_id.get(ev.get("id"), {}), op="kinds")
                case.pop("id", None)
                ck.mismatch(canon(["kinds", case.get("name"), case.get("shape"), "crash"]), vlib.res_kind(exp, got), case, exp, got,
                            what=f"array kind {case.get('name')} of shape {case.get('shape')}: the kind's cast / view menu died", driver="drv_kinds")
                continue
            case = {k: v for k, v in ev.items() if k not in ("res", "e", "id")}
            kind = vlib.res_kind(exp, got)
            ck.mismatch(canon([case.get("op"), case.get("cfg"), case.get("shapes"), case.get("args"), kind]), kind, case, exp, got,
                        what=f"{case.get('op')} on array kind / argument kind {case.get('cfg')} of shape {case.get('shapes')}: {kind}", driver="drv_kinds")
    ck.extra["kinds_matrix_events"] = n
    return n


def run(tier, seed):
    ck = Check("C09", tier, seed)
    ck.add_mc(vlib.tlc_model_check("MC_Layout", "MC_Layout_quick"))
    ck.add_mc(vlib.tlc_model_check("MC_Broadcast", "MC_Broadcast_quick"))
    cases = [dict(id=i + 1, group=g, name=n) for i, (g, n) in enumerate(CASES)]
    total = 0
    builds = [((), "", "g++"), (("-DNDEBUG", "-O2"), "_o2", "g++")] + ([(("-DNMTOOLS_DISABLE_STL",), "_nostl", "g++"), ((), "_clang", "clang++")] if tier == "thorough" else [((), "_clang", "clang++")])
    for flags, tag, comp in builds:
        try:
            drv = vlib.build_driver("drv_config", flags=("-O0",) + tuple(flags) if "-O2" not in flags else tuple(flags), tag=tag, compiler=comp)
        except vlib.Inconclusive as e:
            if tag in ("_nostl",):
                ck.assumptions.append("the NMTOOLS_DISABLE_STL build of the configuration driver does not compile (the driver itself uses std containers): not run")
                continue
            raise
        files = vlib.run_driver(drv, [dict(c, build=tag or "default") for c in cases], ck.workdir, "config" + tag, nproc=8)
        mism, st = vlib.validate_traces("TraceOps", files)
        ck.add_trace_stats(st, len(cases)); total += st["events"]
        for m in mism:
            ev = m["event"]; exp = m["expect"]; got = ev.get("res", {})
            case = {k: v for k, v in ev.items() if k not in ("res", "e", "id")}
            kind = vlib.res_kind(exp, got)
            ck.mismatch(canon([case.get("op"), case.get("cfg"), case.get("shapes"), case.get("args"), tag, kind]), kind, dict(case, build=tag or "default"), exp, got,
                        what=f"{case.get('op')} under configuration {case.get('cfg')} (build {tag or 'default'}): {kind}", driver="drv_config")
        # agreement between configurations: group the observed results by (op, shapes, args)
        groups = {}
        for f in files:
            for l in open(f):
                e = json.loads(l)
                if "op" not in e: continue
                groups.setdefault(canon([e["op"], e["shapes"], e["args"]]), set()).add(canon({k: e["res"].get(k) for k in ("ok", "shape", "elems")}))
        ck.extra["value_groups" + tag] = len(groups)
        ck.extra["groups_with_disagreement" + tag] = sum(1 for v in groups.values() if len(v) > 1)
    total += kinds_matrix(ck, tier)
    ck.nontrivial_count = total
    ck.rule = ("a common set of values (5 shapes, 6 shape pairs incl. incompatible ones, 4 reshape requests incl. an invalid one, one (2,3) array) runs through every container / static-knowledge kind: "
               "compile-time constant tuples, clipped integers, std::array (size_t and int), raw arrays, nmtools and utl static_vector, std::vector, utl::vector, utl::array, run-time tuples; mixed pairs "
               "(constant with dynamic, clipped with fixed, ...); arrays as raw, nested std::array, fixed_ndarray, hybrid_ndarray, dynamic_ndarray and four ndarray_t kinds with compile-time and run-time "
               "axis/shape arguments; builds: g++ -O0 with assertions, g++ -O2 -DNDEBUG, clang++ (thorough also NMTOOLS_DISABLE_STL); every result is validated by TLC against the one reference, "
               "a kinds matrix (drv_kinds): one value per compile-time shape ((2,3), (1,2,3), (1,2,1,3), (6); thorough also (2,1,3,1), (2,2,2), (3,1)) cast to the legacy fixed / hybrid / dynamic classes, nested std::array, "
               "the 15 ndarray_t shape x buffer kinds (constant / fixed / hybrid / dynamic / clipped shape x fixed / hybrid / dynamic buffer) and 7 element-type casts, each kind running 34 view events "
               "(cast, flatten, squeeze, transpose, flip, expand_dims, reshape, moveaxis, atleast_nd, tile, repeat, roll, take, sum, cumsum, broadcast_to, concatenate, slice, add with compile-time and run-time arguments); "
               "a compile-time rejection (error type) counts as 'reports failure'; evaluations = validated events")
    ck.exhaustive = False
    ck.assumptions += ["the run-time container kinds additionally run the complete tables of C01 (8 kinds), C05 (5 encodings), C06 (6 kinds), C11 (6 leaf kinds), C19/C20 (object kinds): see those checks"]
    ck.sample(dict(group="index", name="s232", kinds=["ct", "std_array", "raw", "clipped", "static_vector", "utl_vector", "std_vector", "tuple_rt"]))
    return ck.finish()


def replay(rec):
    case = dict(rec["case"])
    print("configuration case:", canon(case)); print("re-run: ./verif check C09")
    return 0
