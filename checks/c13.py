"""C13: the per-thread device kernel body reproduces host evaluation for any launch geometry
(Kernel.tla model of the launch; TLC-simulated schedules; drv_kernel; TraceKernel)."""
import json, os, re
import vlib
from vlib import Check, canon
from checks import c10

NOPS = 8     # pad (two-operand indexing view) has no function composition: not device-supported


def export_schedules(seed, num):
    key = vlib.spec_hash("Kernel", "GenKernel")[:16]
    path = os.path.join(vlib.GEN, f"GenKernel.{key}.s{seed}.n{num}.ndjson")
    if not os.path.exists(path):
        r = vlib.tlc("Kernel", "GenKernel", workers=1, timeout=1400, extra=("-simulate", f"num={num}", "-depth", "300", "-seed", str(seed + 11)))
        ss = {}
        for line in r["out"].splitlines():
            line = line.strip()
            if line.startswith('"{'):
                s = json.loads(json.loads(line)); ss[canon(s)] = s
        if not ss: raise vlib.Inconclusive("schedule export failed: " + r["out"][-1200:])
        with open(path + ".tmp", "w") as f:
            for s in ss.values(): f.write(json.dumps(s, separators=(",", ":")) + "\n")
        os.replace(path + ".tmp", path)
        vlib.log(f"[gen] GenKernel: {len(ss)} schedules, {r['wall']:.1f}s")
    return [json.loads(l) for l in open(path)]


def canonical_schedules(size, rng):
    """ascending, descending, interleaved by block, with duplicates; block sizes 1..33, grids from exact cover to 2x"""
    out = []
    for bs in (1, 2, 3, 4, 5, 7, 8, 16, 32, 33):
        g0 = -(-size // bs)
        for grid in sorted({g0, g0 + 1, max(g0, -(-2 * size // bs))}):
            if bs * grid > 200: continue
            th = [[b, t] for b in range(grid) for t in range(bs)]
            for name, order in (("asc", th), ("desc", th[::-1]), ("lanes", sorted(th, key=lambda x: (x[1], x[0]))), ("dup", th + th[::2])):
                out.append(dict(size=size, bs=bs, grid=grid, sched=order))
            sh = list(th); rng.shuffle(sh)
            out.append(dict(size=size, bs=bs, grid=grid, sched=sh))
    return out


def binary_after_view(case):
    """a broadcast binary ufunc with a second leaf applied to the result of another view (function extraction defect, see C14)"""
    ops = [s["op"] for s in case.get("prog", [])]
    return any(op == "mix" and i >= 1 for i, op in enumerate(ops))


def run(tier, seed):
    ck = Check("C13", tier, seed)
    quick = tier == "quick"
    maxd = 2 if quick else 3
    ck.add_mc(vlib.tlc_model_check("Kernel", "MC_Kernel", workers=8))
    progs = [p for p in c10.export_programs(tier) if c10.compilable(p["prog"], maxd) and all(c10.OPS.index(s["op"]) < NOPS for s in p["prog"])]
    ck.rng.shuffle(progs)
    progs = progs[:(60 if quick else 600)]
    scheds = export_schedules(seed, 150 if quick else 1500)
    by_size = {}
    for s in scheds: by_size.setdefault(s["size"], []).append(s)
    specs = [dict(name="drv_kernel", flags=(f"-DMAXD={maxd}", f"-DNOPS={NOPS}", f"-DFIRST_IDX={i}", "-O0"), tag=f"_d{maxd}_{i}") for i in range(NOPS)]
    bins = vlib.build_drivers(specs)
    # output sizes come from the reference semantics: ask TLC (trace validation recomputes them); here we take the size the
    # driver reports by running each program once with a trivial schedule
    probe = {i: [] for i in range(NOPS)}
    for n, p in enumerate(progs):
        probe[c10.OPS.index(p["prog"][0]["op"])].append(dict(id=n + 1, shapes=[p["leaf"]], prog=p["prog"], variant="cuda", bs=1, grid=1, sched=[]))
    sizes = {}
    for i, cases in probe.items():
        if not cases: continue
        files = vlib.run_driver(bins[i], cases, ck.workdir, f"probe{i}", nproc=4)
        for f in files:
            for l in open(f):
                e = json.loads(l)
                if e.get("e") == "kbegin": sizes[e["id"]] = (e["size"], e.get("nothing"))
    cases_by = {i: [] for i in range(NOPS)}
    n = 0
    for k, p in enumerate(progs):
        size, nothing = sizes.get(k + 1, (0, True))
        if nothing or size == 0 or size > 64: continue
        pool = list(by_size.get(size, []))[:6] + canonical_schedules(size, ck.rng)
        ck.rng.shuffle(pool)
        for s in pool[:(6 if quick else 14)]:
            n += 1
            cases_by[c10.OPS.index(p["prog"][0]["op"])].append(dict(id=n, shapes=[p["leaf"]], prog=p["prog"], variant="cuda" if n % 3 else "opencl", bs=s["bs"], grid=s["grid"], sched=s["sched"]))
    # depth-3 view types in every tier: f3(f2(f1(a))) over {negative, square, add b, subtract b} (the program binaries stop at depth 2 in the quick tier)
    import itertools
    bshape = [3]; bdata = [2, 1, 3]
    def c3step(o): return dict(op=o, shapes=[[]] if o in ("negative", "square") else [[], bshape], args=dict(none=True), **({} if o in ("negative", "square") else dict(data=[[], bdata])))
    chains = list(itertools.product(("negative", "square", "add", "subtract"), repeat=3))
    ck.rng.shuffle(chains)
    for ops in chains[:(24 if quick else 64)]:
        pool = canonical_schedules(6, ck.rng); ck.rng.shuffle(pool)
        for s_ in pool[:(3 if quick else 8)]:
            n += 1
            cases_by[0].append(dict(id=n, shapes=[[2, 3]], prog=[c3step(o) for o in ops], chain3=dict(bshape=bshape, bdata=bdata), variant="cuda" if n % 2 else "opencl", bs=s_["bs"], grid=s_["grid"], sched=s_["sched"]))
    total = 0; drift = 0
    for i, cases in cases_by.items():
        if not cases: continue
        files = vlib.run_driver(bins[i], cases, ck.workdir, f"kern{i}", nproc=max(2, vlib.NCPU // 3))
        mism, st = vlib.validate_traces("TraceKernel", files)
        ck.add_trace_stats(st, len(cases)); total += len(cases)
        by_id = {c["id"]: c for c in cases}
        seen = set()
        for m in mism:
            ev = m["event"]; case = by_id.get(ev.get("id"), {})
            if ev.get("id") in seen: continue
            seen.add(ev.get("id"))
            kindf = "crash" if "crash" in m["why"] else "kernel_" + m["why"].split()[0]
            key = canon([case.get("prog"), case.get("shapes"), case.get("bs"), case.get("grid"), kindf])
            ck.mismatch(key, kindf, case, m["expect"], {x: ev.get(x) for x in ("e", "b", "t", "changed", "guard_ok", "out", "size", "oshape", "nothing", "crash")},
                        what=f"kernel schedule (bs={case.get('bs')}, grid={case.get('grid')}): {m['why']}", driver=os.path.basename(bins[i]))
    ck.checker_cmds.append("TRACE=<events> tlc -config spec/TraceKernel.cfg spec/TraceKernel.tla")
    ck.nontrivial_count = total
    ck.rule = ("cases = (program, launch geometry, schedule): programs of depth <= 2 (thorough 3) over the device-supported alphabet (TLC program machine), block sizes 1..33, grids from exactly covering "
               "to 2x over-provisioned, schedules = TLC-simulated complete behaviours of the launch model (any order, threads repeated) plus ascending / descending / lane-major / duplicated / shuffled orders; "
               "operands rebuilt from raw (pointer, shape, dim) as device_array objects (CUDA/HIP) or create_array views (SYCL/OpenCL); every thread execution is one validated event")
    ck.exhaustive = False
    ck.extra.update(programs=len(progs), schedules_from_tlc=len(scheds))
    ck.trusted.append("the transcription of the __global__ kernel entry (8 lines) in harness/drivers/drv_kernel.cpp: the cuda/hip/sycl/opencl entry points cannot be compiled in this sandbox")
    ck.assumptions += ["only 1-d launches (as the host code issues them); the launch-size arithmetic of the host code is checked in the model (LaunchArithmetic), not executed"]
    for i, cases in cases_by.items():
        for c in cases[:1]: ck.sample(dict(prog=[s["op"] for s in c["prog"]], bs=c["bs"], grid=c["grid"], sched=c["sched"][:12]))
    return ck.finish()


def replay(rec):
    case = dict(rec["case"]); case["id"] = 1
    i = c10.OPS.index(case["prog"][0]["op"]); maxd = max(2, len(case["prog"]))
    drv = vlib.build_driver("drv_kernel", flags=(f"-DMAXD={maxd}", f"-DNOPS={NOPS}", f"-DFIRST_IDX={i}", "-O0"), tag=f"_d{maxd}_{i}")
    wd = os.path.join(vlib.BUILD, "replay"); os.makedirs(wd, exist_ok=True)
    files = vlib.run_driver(drv, [case], wd, "replay", nproc=1)
    mism, st = vlib.validate_traces("TraceKernel", files)
    for m in mism[:3]: print("MISMATCH", m["why"], "expected", canon(m["expect"]), "observed", canon(m["event"]))
    print("replay:", "mismatch reproduced on the current tree" if mism else "no mismatch on the current tree")
    return 1 if mism else 0
