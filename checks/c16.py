"""C16: linear-algebra routines equal their mathematical definitions (Linalg.tla / MC_Linalg / TraceOps / drv_linalg)."""
import itertools
import vlib
from vlib import Check
from checks import opslib


def prod(s):
    p = 1
    for x in s: p *= x
    return p


def shapes_of(dmin, dmax, emax):
    for d in range(dmin, dmax + 1):
        for s in itertools.product(range(1, emax + 1), repeat=d):
            yield list(s)


def data_for(shapes):
    return [[7 * j + p + 1 for p in range(prod(s))] for j, s in enumerate(shapes)]


def C(op, shapes, **args):
    return dict(op=op, shapes=shapes, args=args or dict(none=True), data=data_for(shapes))


def table(D, E):
    out = []
    S = list(shapes_of(1, D, E))
    for a in S:
        da = len(a)
        for b in S:
            db = len(b)
            if prod(a) * prod(b) > 1500: continue
            # matmul: every batch-broadcast pattern and contraction length; invalid combinations go to the invalid half
            out.append(C("matmul", [a, b])); out.append(C("matmulv2", [a, b]))
            if da <= 3 and db <= 3:
                out.append(C("dot", [a, b])); out.append(C("inner", [a, b])); out.append(C("vecdot", [a, b])); out.append(C("kron", [a, b]))
            if prod(a) * prod(b) <= 100: out.append(C("outerp", [a, b]))
            if da <= 3 and db <= 3:
                for n in range(0, min(da, db) + 1):
                    out.append(C("tensordot", [a, b], int=True, n=n, axa=[], axb=[]))
                # explicit axis pairings: every pairing of one axis, and of two axes
                for x in range(da):
                    for y in range(db):
                        out.append(C("tensordot", [a, b], int=False, n=0, axa=[x - da if (x + y) % 2 else x], axb=[y]))
                if da >= 2 and db >= 2:
                    for xs in itertools.permutations(range(da), 2):
                        for ys in itertools.permutations(range(db), 2):
                            if a[xs[0]] == b[ys[0]] and a[xs[1]] == b[ys[1]]:
                                out.append(C("tensordot", [a, b], int=False, n=0, axa=list(xs), axb=list(ys)))
        if da >= 2:
            for x, y in itertools.permutations(range(da), 2):
                for off in range(-E, E + 1):
                    out.append(C("trace", [a], offset=off, axis1=x, axis2=y - da))
    return out


def seeded(ck, n):
    r = ck.rng
    out = []
    for _ in range(n):
        k = r.randint(1, 6); m = r.randint(1, 5); p = r.randint(1, 5)
        batch = [r.randint(1, 3) for _ in range(r.randint(0, 2))]
        a = [1 if r.random() < 0.3 else x for x in batch] + [m, k]
        b = [1 if r.random() < 0.3 else x for x in batch[r.randint(0, len(batch)):]] + [k, p]
        if prod(a) * prod(b) > 4000: continue
        out.append(C(r.choice(["matmul", "matmulv2"]), [a, b]))
    return out


def trace_diagonal(c):
    """trace over an empty diagonal: the reduction over an axis of extent 0 dies (unwrap of Nothing inside view::reduce)."""
    if c["op"] != "trace": return False
    a = c["args"]; s = c["shapes"][0]; d = len(s); n1 = s[a["axis1"] % d]; n2 = s[a["axis2"] % d]; off = a["offset"]
    ln = max(0, min(n1, n2 - off)) if off >= 0 else max(0, min(n1 + off, n2))
    return ln == 0


def matmul_1d_operand(c):
    return c["op"] == "matmul" and any(len(s) == 1 for s in c["shapes"])


PREDS = dict(c16_trace_diagonal=trace_diagonal, c16_matmul_1d_operand=matmul_1d_operand)


def run(tier, seed):
    ck = Check("C16", tier, seed)
    quick = tier == "quick"
    ck.preds.update(c16_trace_diagonal=trace_diagonal, c16_matmul_1d_operand=matmul_1d_operand)
    ck.add_mc(vlib.tlc_model_check("MC_Linalg", "MC_Linalg_" + tier, timeout=2400))
    tab = table(3, 2) + [c for c in table(2, 3) if any(3 in s for s in c["shapes"])] if quick else table(4, 2) + [c for c in table(3, 3) if any(3 in s for s in c["shapes"])]
    extra = seeded(ck, 400 if quick else 4000)
    cases = opslib.number(tab + extra)
    drv = vlib.build_driver("drv_linalg")
    opslib.run_ops(ck, drv, cases, want="valid", label="linalg", describe=lambda c, k: f"{c['op']} {k}")
    ck.nontrivial_count = len({vlib.canon([c["op"], c["shapes"], c["args"]]) for c in cases if len(c["shapes"]) > 1 and c["shapes"][0] != c["shapes"][1]})
    ck.rule = ("cases = all pairs of operand shapes of dim 1..3 with extents 1..2 and dim 1..2 with extent 3 (thorough: dim 1..4 / extents 1..2 and dim 1..3 / extent 3): every batch-broadcast "
               "pattern and contraction length for both matmul implementations, dot, inner, outer, vecdot, kron, tensordot with every integer axes value and every explicit pairing of one or two axes "
               "(positive and negative), trace over every axis pair and offset; injective integer data so every sum of products is exact; seeded larger matmul operands; invalid operand shapes are attributed to C15")
    ck.exhaustive = True
    ck.extra.update(table_cases=len(tab), seeded_cases=len(extra))
    for c in cases[:2] + cases[-2:]: ck.sample({k: v for k, v in c.items() if k != "data"})
    return ck.finish()


def replay(rec):
    return opslib.replay_ops(rec, "drv_linalg")
