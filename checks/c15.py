"""C15: invalid arguments are reported as Nothing, never as garbage or a crash.
Re-uses the case tables of C03-C08 (their invalid halves) and adds argument grids around the validity boundary."""
import itertools
import vlib
from vlib import Check
from checks import opslib, c03, c04, c06, c07


def prod(s):
    p = 1
    for x in s: p *= x
    return p


def extra_invalid():
    """Shape-valued arguments with entries -2..4, axes in [-dim-2, dim+1], duplicate axes, operand mismatches."""
    V, B, S = [], [], []
    srcs = [[2], [3], [2, 3], [1, 2], [2, 2, 2], [2, 1, 3]]
    for s in srcs:
        d = len(s)
        for m in (1, 2, 3):
            for dst in itertools.product(range(-2, 5), repeat=m):
                if m == 3 and (abs(dst[0]) + abs(dst[1]) + abs(dst[2])) % 3: continue
                V.append(dict(op="reshape", shapes=[s], args=dict(dst=list(dst))))
        for ax in itertools.product(range(-d - 2, d + 2), repeat=d):
            V.append(dict(op="transpose", shapes=[s], args=dict(axes=[list(ax)])))
        for x in range(-d - 2, d + 2):
            for y in range(-d - 2, d + 2):
                V.append(dict(op="moveaxis", shapes=[s], args=dict(src=[x], dst=[y], int=True)))
                V.append(dict(op="swapaxes", shapes=[s], args=dict(a1=x, a2=y)))
            V.append(dict(op="expand_dims", shapes=[s], args=dict(axis=[x], int=True)))
            V.append(dict(op="flip", shapes=[s], args=dict(axis=[[x]], int=True)))
            S.append(dict(op="take", shapes=[s], args=dict(indices=[0], axis=x)))
            S.append(dict(op="repeat", shapes=[s], args=dict(repeats=[2], scalar=True, axis=[x])))
            S.append(dict(op="roll", shapes=[s], args=dict(shift=[1], shift_int=True, axis=[[x]], axis_int=True)))
            S.append(dict(op="concatenate", shapes=[s, s], args=dict(axis=[x])))
            S.append(dict(op="stack", shapes=[s, s], args=dict(axis=x)))
            S.append(dict(op="compress", shapes=[s], args=dict(cond=[1], axis=[x])))
        for t in srcs:
            for ax in range(0, d):
                S.append(dict(op="concatenate", shapes=[s, t], args=dict(axis=[ax])))
            S.append(dict(op="stack", shapes=[s, t], args=dict(axis=0)))
            S.append(dict(op="hstack", shapes=[s, t], args=dict(none=True)))
            S.append(dict(op="vstack", shapes=[s, t], args=dict(none=True)))
            B.append(dict(op="broadcast_to", shapes=[s], args=dict(dst=t)))
        for w in itertools.product(range(0, 2), repeat=3):
            S.append(dict(op="pad", shapes=[s], args=dict(widths=list(w), value=0)))
        S.append(dict(op="pad", shapes=[s], args=dict(widths=[1] * (2 * d + 1), value=0)))
        for reps in ([2] * (d + 1), [1, 1, 1, 1, 1]):
            S.append(dict(op="repeat", shapes=[s], args=dict(repeats=reps, scalar=False, axis=[0])))
        S.append(dict(op="resize", shapes=[s], args=dict(dst=[2] * (d + 1))))
    return V, B, S


# ---- input classes of the known findings
def _axes_of(c):
    """(list of axis values, dimension they refer to) for the axis-like arguments of a case, or None."""
    a = c["args"]; op = c["op"]; d = len(c["shapes"][0])
    if op == "transpose": return (a["axes"][0] if a["axes"] else [], d, True)
    if op == "moveaxis": return (a["src"] + a["dst"], d, False)
    if op == "swapaxes": return ([a["a1"], a["a2"]], d, False)
    if op == "expand_dims": return (a["axis"], d + len(a["axis"]), True)
    if op == "flip": return (a["axis"][0] if a["axis"] else [], d, True)
    if op in ("take", "stack"): return ([a["axis"]], d + (1 if op == "stack" else 0), False)
    if op in ("repeat", "compress", "concatenate"): return (a["axis"], d, False)
    if op == "roll": return (a["axis"][0] if a["axis"] else [], d, False)
    return None


def _axis_defect(c):
    """Kind of invalid axis argument: 'oor' (out of range), 'count' (wrong number of axes), 'dup' (duplicates), or None."""
    r = _axes_of(c)
    if r is None: return None
    axes, d, nodup = r
    if any(x < -d or x >= d for x in axes): return "oor"
    if c["op"] == "transpose" and len(axes) != d: return "count"
    if c["op"] == "moveaxis":
        a = c["args"]
        return "dup" if len({x % d for x in a["src"]}) != len(a["src"]) or len({x % d for x in a["dst"]}) != len(a["dst"]) else None
    norm = [x % d for x in axes]
    return "dup" if nodup and len(set(norm)) != len(norm) else None


# the (operation, kind of invalid axis argument) pairs the library does not reject on the unchanged tree; every other pair
# (moveaxis and roll with an out-of-range axis, ...) is rejected today and must stay rejected
UNVALIDATED = {("transpose", "oor"), ("transpose", "count"), ("transpose", "dup"), ("moveaxis", "dup"), ("swapaxes", "oor"), ("expand_dims", "oor"), ("expand_dims", "dup"),
               ("flip", "oor"), ("take", "oor"), ("repeat", "oor"), ("compress", "oor"), ("concatenate", "oor"), ("stack", "oor")}


def axes_invalid(c):
    return _axis_defect(c) is not None


def axes_not_validated(c):
    return (c["op"], _axis_defect(c)) in UNVALIDATED


def _join_shapes_agree(c):
    """NumPy's operand-shape rule of the joining routines (axes assumed valid)."""
    op = c["op"]; a, b = [list(x) for x in c["shapes"][:2]]
    def up(s, n): return [1] * (n - len(s)) + s if len(s) < n else s
    def agree_except(x, y, ax): return len(x) == len(y) and all(i == ax or p == q for i, (p, q) in enumerate(zip(x, y)))
    if op == "concatenate":
        ax = c["args"]["axis"]
        return True if not ax else agree_except(a, b, ax[0] % len(a))
    if op == "stack": return a == b
    if op == "hstack": return True if (len(a) == 1 and len(b) == 1) else agree_except(a, b, 1)
    if op == "vstack": return agree_except(up(a, 2), up(b, 2), 0)
    if op == "dstack":
        f = lambda s: [1, s[0], 1] if len(s) == 1 else (s + [1] if len(s) == 2 else s)
        return agree_except(f(a), f(b), 2)
    if op == "column_stack":
        f = lambda s: [s[0], 1] if len(s) == 1 else s
        return agree_except(f(a), f(b), 1)
    return True


def join_shape_mismatch(c):
    return c["op"] in ("concatenate", "stack", "hstack", "vstack", "dstack", "column_stack") and not axes_invalid(c) and not _join_shapes_agree(c)


def repeat_length_mismatch(c):
    a = c["args"]
    return c["op"] == "repeat" and not a["scalar"] and not axes_invalid(c)


PREDS = dict(c15_axes_not_validated=axes_not_validated, c15_join_shape_mismatch=join_shape_mismatch, c15_repeat_length_mismatch=repeat_length_mismatch)


def run(tier, seed):
    ck = Check("C15", tier, seed)
    ck.preds.update(PREDS)
    quick = tier == "quick"
    ck.add_mc(vlib.tlc_model_check("MC_Views", "MC_Views_" + tier))
    ck.add_mc(vlib.tlc_model_check("MC_Broadcast", "MC_Broadcast_" + tier, timeout=2400))
    V, B, S = extra_invalid()
    views = [c for c in c03.load_cases(tier) if c["op"] in ("reshape", "transpose", "expand_dims", "moveaxis")] + V
    bcast = c06.expand(c06.load_cases(tier), seed) + B
    uf = [dict(op="mix", shapes=c["shapes"], args=dict(none=True)) for c in vlib.tlc_generate("GenBroadcast", "GenBroadcast_" + tier, env={"FAM": "pairs"}, key_extra="pairs")
          if c["shapes"][0] and c["shapes"][1] and prod(c["shapes"][0]) * prod(c["shapes"][1]) <= 4096]
    n = 0
    total = 0
    for name, cases in (("drv_views", views), ("drv_broadcast", bcast), ("drv_select", S), ("drv_ufunc", uf)):
        cases = opslib.number([c for c in cases if name != "drv_views" or c03.supported(c)], start=total)
        total += len(cases)
        drv = vlib.build_driver(name)
        n += opslib.run_ops(ck, drv, cases, want="invalid", label=name, describe=lambda c, k: f"{c['op']} with invalid arguments: {k}")
    ck.nontrivial_count = ck.evaluations
    ck.rule = ("cases = the complete case tables of C03 (reshape/transpose/moveaxis/expand_dims incl. entries -2..3, wrong lengths, duplicates), C06 (all pairs/triples incl. incompatible), "
               "C07 (mix on incompatible operands) and argument grids around the validity boundary (shape entries -2..4, axes in [-dim-2, dim+1], operand-shape mismatches for "
               "concatenate/stack/hstack/vstack/broadcast_to, malformed pad/repeat/resize arguments); an event is in C15's scope when the reference rejects the arguments; "
               "the library must return an empty optional (no value, no crash). evaluations counts all validated events, valid ones included")
    ck.exhaustive = True
    ck.extra.update(events_total=total)
    ck.assumptions += ["pipelines in which an empty optional is fed into further views are exercised by C10's program events (Nothing propagation), not here"]
    for c in (V[:2] + S[:2]): ck.sample(c)
    return ck.finish()


def replay(rec):
    drv = rec.get("driver") or "drv_views"
    return opslib.replay_ops(rec, drv.split("-")[0])
