"""C03: rearranging views equal NumPy (Views.tla / TraceOps.tla / drv_views)."""
import vlib
from vlib import Check
from checks import opslib

FAMS = ["reshape", "transpose", "moveaxis", "misc"]
ZERO_DIM_OK = {"flatten", "atleast_nd"}


def supported(c):
    # nmtools has no zero-dimensional array type (only C++ scalars): results of dimension 0 are outside its universe
    if c["op"] == "reshape" and len(c["args"]["dst"]) == 0:
        return False
    if c["op"] == "squeeze" and all(x == 1 for x in c["shapes"][0]):
        return False
    if len(c["shapes"][0]) == 0:
        if c["op"] == "atleast_nd":
            return c["args"]["nd"] in (1, 2)
        return c["op"] in ZERO_DIM_OK
    return True


def load_cases(tier):
    cases = []
    for f in FAMS:
        cases += vlib.tlc_generate("GenViews", "GenViews_" + tier, env={"FAM": f}, key_extra=f, timeout=1400)
    return [c for c in cases if supported(c)]


def seeded(ck, n):
    """Larger shapes than the exhaustive scope, arguments drawn from the same grammar."""
    r = ck.rng
    out = []
    for _ in range(n):
        d = r.randint(1, 5)
        while True:
            s = [r.randint(1, 7) for _ in range(d)]
            p = 1
            for x in s: p *= x
            if p <= 600: break
        op = r.choice(["reshape", "transpose", "moveaxis", "swapaxes", "expand_dims", "flip", "squeeze", "flatten", "atleast_nd"])
        neg = lambda a: a - d if r.random() < 0.5 else a
        if op == "reshape":
            fac = []
            q = p
            for f in (2, 3, 5, 7):
                while q % f == 0: fac.append(f); q //= f
            r.shuffle(fac)
            k = r.randint(1, 4)
            dst = [1] * k
            for f in fac: dst[r.randrange(k)] *= f
            if r.random() < 0.5: dst[r.randrange(k)] = -1
            args = dict(dst=dst)
        elif op == "transpose":
            perm = list(range(d)); r.shuffle(perm)
            args = dict(axes=[] if r.random() < 0.15 else [[neg(a) for a in perm]])
        elif op == "moveaxis":
            k = r.randint(1, min(d, 3))
            src = r.sample(range(d), k); dst = r.sample(range(d), k)
            args = dict(src=[neg(a) for a in src], dst=[neg(a) for a in dst], int=False)
            if k == 1 and r.random() < 0.5: args["int"] = True
        elif op == "swapaxes":
            args = dict(a1=neg(r.randrange(d)), a2=neg(r.randrange(d)))
        elif op == "expand_dims":
            k = r.randint(1, 2)
            nd = d + k
            ax = r.sample(range(nd), k)
            args = dict(axis=[a - nd if r.random() < 0.5 else a for a in ax], int=False)
            if k == 1 and r.random() < 0.5: args["int"] = True
        elif op == "flip":
            k = r.randint(0, min(d, 3))
            if k == 0: args = dict(axis=[], int=False)
            else:
                ax = [neg(a) for a in r.sample(range(d), k)]
                args = dict(axis=[ax], int=(k == 1 and r.random() < 0.5))
        elif op == "atleast_nd":
            args = dict(nd=r.randint(0, 6))
        else:
            if op == "squeeze":
                s = [1 if r.random() < 0.4 else x for x in s]
                if all(x == 1 for x in s): s[0] = 2
            args = dict(none=True)
        out.append(dict(op=op, shapes=[s], args=args))
    return out


def describe(case, kind):
    return f"view::{case['op']} {kind}"


def run(tier, seed):
    ck = Check("C03", tier, seed)
    mc = vlib.tlc_model_check("MC_Views", "MC_Views_" + tier)
    ck.add_mc(mc)
    table = load_cases(tier)
    extra = seeded(ck, 1500 if tier == "quick" else 20000)
    cases = opslib.number(table + extra)
    drv = vlib.build_driver("drv_views")
    opslib.run_ops(ck, drv, cases, want="valid", label="views", describe=describe)
    nt = {vlib.canon([c["op"], c["shapes"], c["args"]]) for c in cases if len(c["shapes"][0]) >= 2}
    ck.nontrivial_count = len(nt)
    ck.rule = ("cases = TLC export (GenViews) of every source shape of dim 0..D, extents 1..E (quick D=E=3, thorough D=E=4) with every argument of the property "
               "(all equal-count targets incl. each -1 position, all permutations in three sign patterns, all axes incl. negative, pairs of axes), the invalid half being "
               "validated too but attributed to C15; plus seeded larger shapes (dim<=5, extents<=7); non-trivial = distinct (op, shape, args) with source dim >= 2")
    ck.exhaustive = True
    ck.extra.update(table_cases=len(table), seeded_cases=len(extra))
    ck.assumptions += ["zero-dimensional sources are C++ scalars; nmtools accepts them only for flatten and atleast_1d/2d, other ops are exercised from dim 1",
                       "compile-time axis arguments are covered by C09"]
    for c in cases[:2] + cases[-2:]: ck.sample(c)
    return ck.finish()


def replay(rec):
    return opslib.replay_ops(rec, "drv_views")
