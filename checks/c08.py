"""C08: reductions and accumulations fold exactly the addressed elements, in order (Ufunc.tla / TraceOps / drv_reduce)."""
import itertools
import vlib
from vlib import Check
from checks import opslib

RED = ["reduce_mix", "reduce_add", "reduce_multiply", "reduce_maximum", "reduce_minimum"]
ALIAS = ["sum", "prod", "amax", "amin", "reduce_add_f"]
ACC = ["accumulate_mix", "accumulate_add", "accumulate_multiply", "accumulate_maximum", "cumsum", "cumprod"]


def prod(s):
    p = 1
    for x in s: p *= x
    return p


def small_data(s, r, lo=-3, hi=4):
    return [[r.randint(lo, hi) for _ in range(prod(s))]]


def prod_data(s, r):
    """data for multiplicative folds: ones with at most ten entries from {2, 3, -1, -2}, so that every product stays far below 2^31 (TLC integers)"""
    n = prod(s); d = [1] * n
    for p in r.sample(range(n), min(n, 10)): d[p] = r.choice([2, 3, -1, -2, 1])
    return [d]


def group_size(s, axis):
    if not axis: return prod(s)
    d = len(s)
    n = 1
    for a in {x % d for x in axis[0]}: n *= s[a]
    return n


def table(D, E, ck):
    r = ck.rng
    cases = []
    for d in range(1, D + 1):
        for s in itertools.product(range(1, E + 1), repeat=d):
            s = list(s)
            # every non-empty subset of axes, as positive or negative numbers, sorted or not; None
            axis_forms = [dict(axis=[], axis_int=False)]
            for k in range(1, d + 1):
                for sub in itertools.combinations(range(d), k):
                    axis_forms.append(dict(axis=[list(sub)], axis_int=False))
                    axis_forms.append(dict(axis=[[a - d for a in reversed(sub)]], axis_int=False))
                    if k == 1:
                        axis_forms.append(dict(axis=[[sub[0]]], axis_int=True))
                        axis_forms.append(dict(axis=[[sub[0] - d]], axis_int=True))
                    if k >= 2:
                        mixed = [a - d if i % 2 else a for i, a in enumerate(sub)]
                        axis_forms.append(dict(axis=[mixed[::-1]], axis_int=False))
            for af in axis_forms:
                for kd in ("F", "T", "f", "t"):
                    for init in ([], [5]):
                        cases.append(dict(op="reduce_mix", shapes=[s], args=dict(af, initial=init, keepdims=kd)))
                # named reducers: one keepdims/initial combination each (rotating), small data so products stay small
                for i, op in enumerate(RED[1:] + ALIAS):
                    kd = "FTft"[(i + len(s)) % 4]
                    init = [] if (i + sum(s)) % 2 else [2]
                    cases.append(dict(op=op, shapes=[s], args=dict(af, initial=init, keepdims=kd), data=prod_data(s, r) if "multiply" in op or op == "prod" else small_data(s, r)))
                n = group_size(s, af["axis"])
                dat = small_data(s, r, -4, 6)
                cases.append(dict(op="mean", shapes=[s], args=dict(af, initial=[], keepdims="F", mul=n), data=dat))
                cases.append(dict(op="var", shapes=[s], args=dict(af, initial=[], keepdims="T", mul=n * n, n=n), data=dat))
                cases.append(dict(op="stddev", shapes=[s], args=dict(af, initial=[], keepdims="F", mul=n * n, n=n), data=dat))
                # dtype absent on narrow integer sources whose sums leave the element type's range (NumPy accumulates mean/var in floating point)
                if prod(s) >= 3 and len(cases) % 4 == 0:
                    for et, lo, hi in (("i8", 90, 120), ("u8", 170, 250)):
                        nd = [[r.randint(lo, hi) for _ in range(prod(s))]]
                        cases.append(dict(op="mean", shapes=[s], args=dict(af, initial=[], keepdims="F", mul=n, etype=et), data=nd))
                        cases.append(dict(op="var", shapes=[s], args=dict(af, initial=[], keepdims="F", mul=n * n, n=n, etype=et), data=nd))
                        cases.append(dict(op="sum", shapes=[s], args=dict(af, initial=[], keepdims="F", etype=et, dtype=r.choice(["i32", "i64", "f64"])), data=nd))
                cases.append(dict(op="vector_norm", shapes=[s], args=dict(af, initial=[], keepdims="F", mul=1), data=dat))
            for ax in range(-d, d):
                for op in ACC:
                    cases.append(dict(op=op, shapes=[s], args=dict(axis=ax), data=prod_data(s, r) if ("multiply" in op or op == "cumprod") else small_data(s, r)) if op != "accumulate_mix"
                                 else dict(op=op, shapes=[s], args=dict(axis=ax)))
    return cases


def seeded(ck, n):
    r = ck.rng
    out = []
    for _ in range(n):
        d = r.randint(1, 5)
        while True:
            s = [r.randint(1, 6) for _ in range(d)]
            if prod(s) <= 600: break
        k = r.randint(0, d)
        if k == 0: af = dict(axis=[], axis_int=False)
        else:
            sub = r.sample(range(d), k)
            af = dict(axis=[[a - d if r.random() < 0.5 else a for a in sub]], axis_int=(k == 1 and r.random() < 0.5))
        if r.random() < 0.25:
            out.append(dict(op="accumulate_mix", shapes=[s], args=dict(axis=r.randrange(-d, d))))
        else:
            out.append(dict(op="reduce_mix", shapes=[s], args=dict(af, initial=[] if r.random() < 0.5 else [r.randint(0, 99)], keepdims=r.choice("FTft"))))
    return out


def run(tier, seed):
    ck = Check("C08", tier, seed)
    quick = tier == "quick"
    ck.add_mc(vlib.tlc_model_check("MC_Ufunc", "MC_Ufunc_" + tier, timeout=2400))
    tab = table(3, 3, ck) if quick else table(4, 3, ck) + [c for c in table(2, 4, ck) if 4 in c["shapes"][0]]
    extra = seeded(ck, 1500 if quick else 20000)
    cases = opslib.number(tab + extra)
    drv = vlib.build_driver("drv_reduce")
    opslib.run_ops(ck, drv, cases, want="valid", label="reduce", describe=lambda c, k: f"{c['op']} {k}")
    ck.nontrivial_count = len({vlib.canon([c["op"], c["shapes"], c["args"]]) for c in cases if len(c["shapes"][0]) >= 2})
    ck.rule = ("cases = every source shape of dim 1..3, extents 1..3 (thorough: dim 1..4 extents 1..3 plus dim<=2 extent 4) x every non-empty subset of axes given as positive, negative, "
               "reversed and mixed lists or as a single integer, and None x keepdims as compile-time and run-time value x initial absent/present, with the recording operation mix "
               "(order and association visible); the named reducers add/multiply/maximum/minimum, sum/prod/amax/amin, float dtype, accumulate/cumsum/cumprod on every axis, "
               "and mean/var/stddev/vector_norm through exact integer identities (n*mean = sum, n^2*var = n*sum(x^2)-(sum x)^2, norm^2 = sum(x^2)); seeded larger shapes. "
               "non-trivial = distinct (op, shape, args) with source dim >= 2")
    ck.exhaustive = True
    ck.extra.update(table_cases=len(tab), seeded_cases=len(extra))
    ck.assumptions += ["sum / prod without a dtype fold in the source element type (C++ semantics: an int8 sum wraps where NumPy widens to the platform integer); narrow sources are therefore driven with an explicit wider dtype for sum and with dtype absent for mean / var, whose definition accumulates in floating point"]
    ck.assumptions += ["real-valued results are compared after scaling to the exact integer the definition gives (tolerance 1e-6 relative in the driver's rounding)",
                       "bitwise/logical reducers and trace are not driven in this tier"]
    for c in cases[:2] + cases[-2:]: ck.sample(c)
    return ck.finish()


def replay(rec):
    return opslib.replay_ops(rec, "drv_reduce")
