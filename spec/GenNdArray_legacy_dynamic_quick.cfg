CONSTANTS KindDesc <- Desc_legacy_dynamic Shapes <- ShapesQuick MaxHist = 4
SPECIFICATION Spec
VIEW View
ACTION_CONSTRAINT Emit
CHECK_DEADLOCK FALSE
