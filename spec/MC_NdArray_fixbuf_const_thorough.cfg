CONSTANTS KindDesc <- Desc_fixbuf_const Shapes <- ShapesThorough MaxHist = 5
SPECIFICATION Spec
VIEW View
INVARIANT Inv
PROPERTIES RefusedChangesNothing WriteTouchesOne CastChangesNothing
CHECK_DEADLOCK FALSE
