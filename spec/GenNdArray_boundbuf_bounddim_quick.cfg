CONSTANTS KindDesc <- Desc_boundbuf_bounddim Shapes <- ShapesQuick MaxHist = 4
SPECIFICATION Spec
VIEW View
ACTION_CONSTRAINT Emit
CHECK_DEADLOCK FALSE
