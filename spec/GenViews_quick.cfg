CONSTANTS D = 3 E = 3
INIT GInit
NEXT GNext
