-------------------------------- MODULE GenStack --------------------------------
(* Case table for the combinator part of C14: every composition of at most D      *)
(* functors of the stack machine's alphabet whose arity is 1..5, under every      *)
(* named split of the operand list and both groupings of the composition.         *)
EXTENDS StackMachine, Json, IOUtils, SequencesExt
CONSTANTS D
SigSeq == SetToSeq(Sig)
Comps == UNION {[1..n -> Sig] : n \in 1..D}
Usable(c) == Arity(c) \in 1..5
\* operand data: distinct, with zeros and negatives (where tests its condition, subtract is not commutative)
DataOf(j) == <<<<1, 0, -2>>, <<3, 5, 0>>, <<0, 7, 11>>, <<13, 0, 17>>, <<19, 23, 0>>>>[j]
Splits(n) == {"all", "ones"} \cup (IF n >= 2 THEN {"head1", "tail1"} ELSE {}) \cup (IF n >= 4 THEN {"half"} ELSE {})
Groups(c) == IF Len(c) >= 3 THEN {"left", "right"} ELSE {"left"}
CasesOf(c) == LET n == Arity(c) IN
    {[op |-> "fstack", comp |-> [m \in 1..Len(c) |-> c[m].name], shapes |-> [j \in 1..n |-> <<3>>], data |-> [j \in 1..n |-> DataOf(j)],
      split |-> s, group |-> g, args |-> [none |-> TRUE]] : s \in Splits(n), g \in Groups(c)}
Table == LET cs == SetToSeq({c \in Comps : Usable(c)}) IN FlattenSeq([i \in DOMAIN cs |-> SetToSeq(CasesOf(cs[i]))])
ASSUME ndJsonSerialize(IOEnv.OUT, Table)
VARIABLE z
GInit == z = 0
GNext == UNCHANGED z
=================================================================================
