--------------------------- MODULE MC_ComputeGraph ---------------------------
(* every expression of up to MaxTerms terms of arity 1..2 over two leaves: the  *)
(* merge of the sub-graphs is the graph (MergeLaw), and the listing is canonical *)
EXTENDS ComputeGraph, TLC
CONSTANTS MaxTerms
Leaves == {0, 1}
TermId(i) == 10 + i
ArgsOf(i) == Leaves \cup {TermId(k) : k \in 1..(i - 1)}
Exprs == UNION {{T \in [1..n -> [id : {TermId(k) : k \in 1..n}, args : UNION {[1..a -> ArgsOf(n)] : a \in 1..2}]] :
                    \A i \in 1..n : T[i].id = TermId(i) /\ \A j \in 1..Len(T[i].args) : T[i].args[j] \in ArgsOf(i)} : n \in 1..MaxTerms}
VARIABLE T
Init == T \in Exprs
Next == UNCHANGED T
Spec == Init /\ [][Next]_T
Law == MergeLaw(T) /\ ImplLaw(T)
ListingLaw == (WellFormed(T) /\ Rooted(T)) =>
    LET L == GraphListing(T) n == Cardinality(GraphNodes(T)) IN
      /\ Len(L) = n + 2 * Cardinality(GraphEdges(T)) + 2 * Len(T) + Cardinality({<<i, j>> \in (1..Len(T)) \X (1..2) : j <= Len(T[i].args)})
      /\ \A i \in 1..(n - 1) : L[i] < L[i + 1]
NonVacuous == Cardinality({x \in Exprs : WellFormed(x) /\ Rooted(x) /\ Cardinality(GraphEdges(x)) > Len(x)}) > 0
ASSUME NonVacuous
\* the unsound shortcut is distinguishable inside the bounded universe (the law is not vacuous with respect to it)
ASSUME \E x \in Exprs : WellFormed(x) /\ Rooted(x) /\ BadGraph(x, Len(x)).e # GraphEdges(x)
=============================================================================
