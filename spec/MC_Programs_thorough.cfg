CONSTANTS Leaves <- LeavesThorough MaxDepth = 3 MaxSize = 48
SPECIFICATION Spec
INVARIANTS NothingIsFinal Wellformed FusedIsStaged
CHECK_DEADLOCK FALSE
