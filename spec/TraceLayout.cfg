CONSTANT Shapes = {}
SPECIFICATION TraceSpec
INVARIANT TraceInv
POSTCONDITION TraceAccepted
CHECK_DEADLOCK FALSE
