CONSTANTS KindDesc <- Desc_fixbuf_fixdim Shapes <- ShapesQuick MaxHist = 1000
SPECIFICATION TraceSpec
POSTCONDITION TraceAccepted
CHECK_DEADLOCK FALSE
