--------------------------------- MODULE ImplSimd ---------------------------------
(* C12/C02 implementation-shaped model of the SIMD evaluator loops for a lane count *)
(* L and an element count N: the packed loop (i = 0, L, ... while i + L <= N) and    *)
(* the scalar tail from (N div L) * L, and the horizontal reduction (packed          *)
(* accumulate, then scalar leftover).  Invariants: every packed access [o, o+L) lies *)
(* inside the buffer, every position is written exactly once (element-wise) resp.    *)
(* read exactly once (reduction).                                                     *)
EXTENDS Naturals, FiniteSets, Sequences
CONSTANTS Lanes, MaxMul
VARIABLES L, N, i, phase, touched, count
vars == <<L, N, i, phase, touched, count>>
Init == /\ L \in Lanes /\ N \in 1..(MaxMul * 16 + 1) /\ N <= MaxMul * L + 1
        /\ i = 0 /\ phase = "packed" /\ touched = {} /\ count = [p \in {} |-> 0]
Bump(S) == [p \in (DOMAIN count) \cup S |-> (IF p \in DOMAIN count THEN count[p] ELSE 0) + (IF p \in S THEN 1 ELSE 0)]
Packed == /\ phase = "packed" /\ i + L <= N
          /\ touched' = touched \cup (i..(i + L - 1)) /\ count' = Bump(i..(i + L - 1))
          /\ i' = i + L /\ UNCHANGED <<L, N, phase>>
ToTail == /\ phase = "packed" /\ i + L > N
          /\ phase' = "tail" /\ i' = (N \div L) * L /\ UNCHANGED <<L, N, touched, count>>
TailStep == /\ phase = "tail" /\ i < N
        /\ touched' = touched \cup {i} /\ count' = Bump({i})
        /\ i' = i + 1 /\ UNCHANGED <<L, N, phase>>
Done == phase = "tail" /\ i >= N
Next == Packed \/ ToTail \/ TailStep
Spec == Init /\ [][Next]_vars
InBuffer == \A p \in touched : p >= 0 /\ p < N
ExactlyOnce == Done => (touched = 0..(N - 1) /\ \A p \in DOMAIN count : count[p] = 1)
TailStartsWherePackedStopped == phase = "tail" => i >= (N \div L) * L
=================================================================================
