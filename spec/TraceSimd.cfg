SPECIFICATION TraceSpec
POSTCONDITION TraceAccepted
CHECK_DEADLOCK FALSE
