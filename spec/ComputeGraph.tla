----------------------------- MODULE ComputeGraph -----------------------------
(* C14: the compute graph of a view expression.  An expression is a DAG of     *)
(* operation terms over leaves: a sequence of terms [id, args] in construction  *)
(* order, args = the ids of a term's inputs (leaf ids or ids of earlier terms). *)
(* A sub-expression used by several consumers is ONE term (views are values:    *)
(* equal types carry equal ids).  The graph of the expression has one node per  *)
(* leaf and per term and an edge from every input of a term to the term.        *)
EXTENDS Naturals, Integers, Sequences, FiniteSets

TermIds(T) == {T[i].id : i \in 1..Len(T)}
InputIds(T) == UNION {{T[i].args[j] : j \in 1..Len(T[i].args)} : i \in 1..Len(T)}
GraphNodes(T) == TermIds(T) \cup InputIds(T)
GraphEdges(T) == UNION {{<<T[i].args[j], T[i].id>> : j \in 1..Len(T[i].args)} : i \in 1..Len(T)}
LeafIds(T) == InputIds(T) \ TermIds(T)
\* well formed: ids unique, inputs are leaves or earlier terms (acyclic by construction)
WellFormed(T) == /\ \A i, j \in 1..Len(T) : i # j => T[i].id # T[j].id
                 /\ \A i \in 1..Len(T) : \A j \in 1..Len(T[i].args) : T[i].args[j] \in LeafIds(T) \cup {T[k].id : k \in 1..(i - 1)}
\* the sub-expression rooted at the last term reaches every node (nothing dangling)
RECURSIVE Reach(_, _)
Reach(T, S) == LET nxt == S \cup UNION {{T[i].args[j] : j \in 1..Len(T[i].args)} : i \in {k \in 1..Len(T) : T[k].id \in S}}
               IN IF nxt = S THEN S ELSE Reach(T, nxt)
Rooted(T) == Len(T) > 0 /\ Reach(T, {T[Len(T)].id}) = GraphNodes(T)

\* canonical listing used by the trace events: nodes ascending, then the edges ascending (source, target), flattened
RECURSIVE SortInts(_), SortPairs(_)
SortInts(S) == IF S = {} THEN <<>> ELSE LET m == CHOOSE x \in S : \A y \in S : x <= y IN <<m>> \o SortInts(S \ {m})
SortPairs(S) == IF S = {} THEN <<>> ELSE LET m == CHOOSE p \in S : \A q \in S : p[1] < q[1] \/ (p[1] = q[1] /\ p[2] <= q[2])
                                         IN <<m[1], m[2]>> \o SortPairs(S \ {m})
\* the operand list a function node carries: its inputs IN ORDER (x / exp(x) and exp(x) / x have the same edges); terms ascending by id
RECURSIVE OperandRows(_, _)
OperandRows(T, ids) == IF ids = <<>> THEN <<>> ELSE LET t == T[CHOOSE m \in 1..Len(T) : T[m].id = Head(ids)]
                                                   IN <<t.id, Len(t.args)>> \o t.args \o OperandRows(T, Tail(ids))
GraphListing(T) == SortInts(GraphNodes(T)) \o SortPairs(GraphEdges(T)) \o OperandRows(T, SortInts(TermIds(T)))

\* ---- merging, as the extraction does it: the graph of a term = the union of the graphs of its inputs plus the term.
\* Law checked by TLC (MC_ComputeGraph): the union of sub-graphs (nodes AND edges of an input that is already present
\* are still merged) equals the direct definition, for every well-formed rooted expression in the bounded universe.
RECURSIVE SubTerms(_, _)
SubTerms(T, k) ==        \* the terms reachable from term k, in construction order
    LET ids == Reach(T, {T[k].id}) IN SelectSeq(T, LAMBDA t : t.id \in ids)
RECURSIVE MergedEdges(_, _), MergedNodes(_, _)
MergedNodes(T, k) == {T[k].id} \cup {T[k].args[j] : j \in 1..Len(T[k].args)}
                     \cup UNION {MergedNodes(T, CHOOSE m \in 1..Len(T) : T[m].id = T[k].args[j]) : j \in {q \in 1..Len(T[k].args) : T[k].args[q] \in TermIds(T)}}
MergedEdges(T, k) == {<<T[k].args[j], T[k].id>> : j \in 1..Len(T[k].args)}
                     \cup UNION {MergedEdges(T, CHOOSE m \in 1..Len(T) : T[m].id = T[k].args[j]) : j \in {q \in 1..Len(T[k].args) : T[k].args[q] \in TermIds(T)}}
MergeLaw(T) == (WellFormed(T) /\ Rooted(T)) => (MergedNodes(T, Len(T)) = GraphNodes(T) /\ MergedEdges(T, Len(T)) = GraphEdges(T))

\* ---- implementation-shaped extraction (get_compute_graph_t for ufunc views): the operands are folded left to right into an
\* accumulated graph g = [n |-> nodes, e |-> edges]; a leaf operand adds its node, a view operand whose node is ALREADY in g
\* is skipped altogether ("skip adding nodes if has already exists, but still add edge"), any other view operand has its
\* whole graph merged (every node and every out-edge, also of nodes that are present); finally the term and its in-edges.
\* ImplLaw: the shortcut is sound (a term node is only ever added together with its whole sub-graph).
IndexOfId(T, id) == CHOOSE m \in 1..Len(T) : T[m].id = id
RECURSIVE ImplGraph(_, _), ImplFold(_, _, _, _)
ImplFold(T, k, j, g) ==
    IF j > Len(T[k].args) THEN g
    ELSE LET a == T[k].args[j] IN
         IF a \notin TermIds(T) THEN ImplFold(T, k, j + 1, [g EXCEPT !.n = @ \cup {a}])
         ELSE IF a \in g.n THEN ImplFold(T, k, j + 1, g)
         ELSE LET sub == ImplGraph(T, IndexOfId(T, a)) IN ImplFold(T, k, j + 1, [n |-> g.n \cup sub.n, e |-> g.e \cup sub.e])
ImplGraph(T, k) == LET g == ImplFold(T, k, 1, [n |-> {}, e |-> {}])
                   IN [n |-> g.n \cup {T[k].id}, e |-> g.e \cup {<<T[k].args[j], T[k].id>> : j \in 1..Len(T[k].args)}]
ImplLaw(T) == (WellFormed(T) /\ Rooted(T)) => (ImplGraph(T, Len(T)).n = GraphNodes(T) /\ ImplGraph(T, Len(T)).e = GraphEdges(T))
\* the variant that skips a present node TOGETHER WITH its out-edges while merging (a tempting "already merged" shortcut) is
\* not sound: MC_ComputeGraph checks that TLC finds an expression on which it loses an edge (x / exp(x))
RECURSIVE BadGraph(_, _), BadFold(_, _, _, _)
BadFold(T, k, j, g) ==
    IF j > Len(T[k].args) THEN g
    ELSE LET a == T[k].args[j] IN
         IF a \notin TermIds(T) THEN BadFold(T, k, j + 1, [g EXCEPT !.n = @ \cup {a}])
         ELSE IF a \in g.n THEN BadFold(T, k, j + 1, g)
         ELSE LET sub == BadGraph(T, IndexOfId(T, a)) IN
              BadFold(T, k, j + 1, [n |-> g.n \cup sub.n, e |-> g.e \cup {p \in sub.e : p[1] \notin g.n}])
BadGraph(T, k) == LET g == BadFold(T, k, 1, [n |-> {}, e |-> {}])
                  IN [n |-> g.n \cup {T[k].id}, e |-> g.e \cup {<<T[k].args[j], T[k].id>> : j \in 1..Len(T[k].args)}]
=============================================================================
