-------------------------------- MODULE TraceStatic --------------------------------
(* Trace validation for C11: per event the five static traits of a view TYPE and   *)
(* the shape / dim / size / elements of one OBJECT of it, plus the result of eval  *)
(* into the storage the library inferred.  Accepted iff the traits are sound for   *)
(* the object, the object's dim/size agree with its shape, and eval returned the   *)
(* whole view (same shape, same elements: nothing clipped) with sound traits too.  *)
EXTENDS StaticInfo, Json, IOUtils
TraceLog == ndJsonDeserialize(IOEnv.TRACE)
VARIABLES l, bad
tvars == <<l, bad>>
Ev == TraceLog[l]
Good(r) == /\ r.crash = "" /\ r.ok
           /\ Sound(r.traits, r.shape) /\ r.dim = Len(r.shape) /\ r.size = Prod(r.shape) /\ Len(r.elems) = Prod(r.shape)
           /\ r.eval_shape = r.shape /\ r.eval_elems = r.elems /\ Sound(r.eval_traits, r.eval_shape)
\* "join" events (drv_clipped): a shape tuple<clipped<B1>,..> holding the extents; the joined index type must contain the
\* range of every axis (it may be wider than AbsJoin, not narrower), every extent read at a run-time position is the extent
GoodJoin(e) == LET a == [i \in 1..Len(e.bounds) |-> <<"clip", e.bounds[i]>>] r == e.res IN
    /\ r.crash = "" /\ r.ok
    /\ \A i \in 1..Len(a) : RangeContains(r.join, RangeOfAxis(a[i]))
    /\ r.at = e.extents /\ r.direct = e.extents /\ r.product = Prod(e.extents)
    /\ \A i \in 1..Len(a) : ClipInto(r.join, e.extents[i]) = e.extents[i]
IsJoin == "op" \in DOMAIN Ev /\ Ev.op = "join"
TInit == l = 1 /\ bad = <<>> /\ abs = <<>> /\ abs2 = <<>>
TOp == /\ l <= Len(TraceLog)
       /\ bad' = IF (IsJoin /\ "join" \in DOMAIN Ev.res /\ GoodJoin(Ev)) \/ (~IsJoin /\ "traits" \in DOMAIN Ev.res /\ Good(Ev.res)) THEN bad
                 ELSE Append(bad, [l |-> l, id |-> Ev.id, why |-> IF "join" \in DOMAIN Ev.res THEN "the joined index type of a clipped shape loses an extent" ELSE IF "traits" \in DOMAIN Ev.res THEN "static information unsound or evaluation incomplete" ELSE "crash", expect |-> [ok |-> TRUE]])
       /\ l' = l + 1 /\ UNCHANGED vars
TFinish == /\ l = Len(TraceLog) + 1 /\ ndJsonSerialize(IOEnv.OUT, bad) /\ l' = l + 1 /\ UNCHANGED <<bad, vars>>
TNext == TOp \/ TFinish
TraceSpec == TInit /\ [][TNext]_<<tvars, vars>>
TraceAccepted == TLCGet("stats").diameter = Len(TraceLog) + 2
=================================================================================
