-------------------------------- MODULE TraceStatic --------------------------------
(* Trace validation for C11: per event the five static traits of a view TYPE and   *)
(* the shape / dim / size / elements of one OBJECT of it, plus the result of eval  *)
(* into the storage the library inferred.  Accepted iff the traits are sound for   *)
(* the object, the object's dim/size agree with its shape, and eval returned the   *)
(* whole view (same shape, same elements: nothing clipped) with sound traits too.  *)
EXTENDS StaticInfo, Json, IOUtils
TraceLog == ndJsonDeserialize(IOEnv.TRACE)
VARIABLES l, bad
tvars == <<l, bad>>
Ev == TraceLog[l]
Good(r) == /\ r.crash = "" /\ r.ok
           /\ Sound(r.traits, r.shape) /\ r.dim = Len(r.shape) /\ r.size = Prod(r.shape) /\ Len(r.elems) = Prod(r.shape)
           /\ r.eval_shape = r.shape /\ r.eval_elems = r.elems /\ Sound(r.eval_traits, r.eval_shape)
TInit == l = 1 /\ bad = <<>> /\ abs = <<>> /\ abs2 = <<>>
TOp == /\ l <= Len(TraceLog)
       /\ bad' = IF "traits" \in DOMAIN Ev.res /\ Good(Ev.res) THEN bad
                 ELSE Append(bad, [l |-> l, id |-> Ev.id, why |-> IF "traits" \in DOMAIN Ev.res THEN "static information unsound or evaluation incomplete" ELSE "crash", expect |-> [ok |-> TRUE]])
       /\ l' = l + 1 /\ UNCHANGED vars
TFinish == /\ l = Len(TraceLog) + 1 /\ ndJsonSerialize(IOEnv.OUT, bad) /\ l' = l + 1 /\ UNCHANGED <<bad, vars>>
TNext == TOp \/ TFinish
TraceSpec == TInit /\ [][TNext]_<<tvars, vars>>
TraceAccepted == TLCGet("stats").diameter = Len(TraceLog) + 2
=================================================================================
