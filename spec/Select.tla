--------------------------------- MODULE Select ---------------------------------
(* C04 reference semantics (Layer R): selecting, replicating, joining and        *)
(* generating views.  NumPy is the meaning except pad (ONNX width layout,        *)
(* constant fill), resize (nearest-neighbour, floor) and expand (spacing         *)
(* insertion) which follow the library's documented definitions.                 *)
EXTENDS Views

ArrN(shape, elems) == [ok |-> TRUE, shape |-> shape, elems |-> elems]
Set(s, j, v) == [s EXCEPT ![j] = v]
FlatOf(a) == Flatten(a)
Restore(flat, shape) == ArrN(shape, flat.elems)

\* ------------------------------------------------------------------ tile / repeat
PadLeft(s, n, v) == IF Len(s) >= n THEN s ELSE Const(n - Len(s), v) \o s
Tile(a, reps) ==
    IF \E i \in 1..Len(reps) : reps[i] < 0 THEN Nothing ELSE
    LET n == Max2(Len(a.shape), Len(reps))
        sh == PadLeft(a.shape, n, 1)
        rp == PadLeft(reps, n, 1)
        a2 == ArrN(sh, a.elems)
        osh == [j \in 1..n |-> sh[j] * rp[j]]
    IN IF Prod(osh) = 0 THEN ArrN(osh, <<>>) ELSE Mk(osh, LAMBDA i : At(a2, [j \in 1..n |-> i[j] % sh[j]]))

RECURSIVE CumSum(_, _)
CumSum(s, i) == IF i = 0 THEN 0 ELSE s[i] + CumSum(s, i - 1)
\* source position of destination position j (0-based) along an axis repeated per element
RepSrc(reps, j) == (CHOOSE k \in 1..Len(reps) : CumSum(reps, k - 1) <= j /\ j < CumSum(reps, k)) - 1
RepeatAxis(a, reps, ax) ==          \* reps: per-element sequence, ax 0-based normalised
    LET osh == Set(a.shape, ax + 1, SumSeq(reps))
    IN IF Prod(osh) = 0 THEN ArrN(osh, <<>>) ELSE Mk(osh, LAMBDA i : At(a, Set(i, ax + 1, RepSrc(reps, i[ax + 1]))))
Repeat(a, repeats, scalar, axisOpt) ==
    LET b == IF axisOpt = <<>> THEN FlatOf(a) ELSE a
        d == Len(b.shape)
        okAx == axisOpt = <<>> \/ AxisOk(axisOpt[1], d)
    IN IF ~okAx THEN Nothing
       ELSE LET ax == IF axisOpt = <<>> THEN 0 ELSE NormAxis(axisOpt[1], d)
                n == b.shape[ax + 1]
                reps == IF scalar THEN Const(n, repeats[1]) ELSE repeats
            IN IF Len(reps) # n \/ (\E k \in 1..Len(reps) : reps[k] < 0) THEN Nothing ELSE RepeatAxis(b, reps, ax)

\* ------------------------------------------------------------------ roll
RollAxes(a, shifts, axes) ==        \* axes normalised 0-based, same length as shifts; shifts on the same axis add up
    LET d == Len(a.shape)
        total == [m \in 1..d |-> SumSeq([q \in 1..Len(axes) |-> IF axes[q] + 1 = m THEN shifts[q] ELSE 0])]
    IN Mk(a.shape, LAMBDA i : At(a, [m \in 1..d |-> PyMod(i[m] - total[m], a.shape[m])]))
Roll(a, shift, axisOpt) ==          \* shift: sequence; axisOpt: <<>> or <<axes sequence>>
    IF axisOpt = <<>>
    THEN IF Len(shift) # 1 THEN Nothing ELSE Restore(RollAxes(FlatOf(a), shift, <<0>>), a.shape)
    ELSE LET axes == axisOpt[1]  d == Len(a.shape) IN
         IF ~AxesOk(axes, d) THEN Nothing
         ELSE IF Len(shift) = Len(axes) THEN RollAxes(a, shift, NormAxes(axes, d))
         ELSE IF Len(shift) = 1 THEN RollAxes(a, Const(Len(axes), shift[1]), NormAxes(axes, d))
         ELSE IF Len(axes) = 1 THEN RollAxes(a, shift, Const(Len(shift), NormAxis(axes[1], d)))
         ELSE Nothing

\* ------------------------------------------------------------------ take / compress
Take(a, indices, axis) ==
    LET d == Len(a.shape) IN
    IF ~AxisOk(axis, d) THEN Nothing
    ELSE LET ax == NormAxis(axis, d)  n == a.shape[ax + 1] IN
         IF \E k \in 1..Len(indices) : indices[k] < -n \/ indices[k] >= n THEN Nothing
         ELSE LET osh == Set(a.shape, ax + 1, Len(indices))
              IN IF Prod(osh) = 0 THEN ArrN(osh, <<>>)
                 ELSE Mk(osh, LAMBDA i : At(a, Set(i, ax + 1, LET v == indices[i[ax + 1] + 1] IN IF v < 0 THEN v + n ELSE v)))
Compress(cond, a, axisOpt) ==       \* cond: sequence of 0/1
    LET b == IF axisOpt = <<>> THEN FlatOf(a) ELSE a
        d == Len(b.shape) IN
    IF axisOpt # <<>> /\ ~AxisOk(axisOpt[1], d) THEN Nothing
    ELSE LET ax == IF axisOpt = <<>> THEN 0 ELSE NormAxis(axisOpt[1], d)
             n == b.shape[ax + 1] IN
         IF Len(cond) > n THEN Nothing
         ELSE LET sel == SelectSeq(Range0(Len(cond)), LAMBDA k : cond[k + 1] # 0)
                  osh == Set(b.shape, ax + 1, Len(sel))
              IN IF Prod(osh) = 0 THEN ArrN(osh, <<>>) ELSE Mk(osh, LAMBDA i : At(b, Set(i, ax + 1, sel[i[ax + 1] + 1])))

\* ------------------------------------------------------------------ joining
ConcatAxis(a, b, ax) ==             \* ax 0-based normalised, shapes agree elsewhere
    LET na == a.shape[ax + 1]
        osh == Set(a.shape, ax + 1, na + b.shape[ax + 1])
    IN Mk(osh, LAMBDA i : IF i[ax + 1] < na THEN At(a, i) ELSE At(b, Set(i, ax + 1, i[ax + 1] - na)))
ConcatOk(sa, sb, ax) == Len(sa) = Len(sb) /\ \A m \in 1..Len(sa) : m = ax + 1 \/ sa[m] = sb[m]
Concatenate(a, b, axisOpt) ==
    IF axisOpt = <<>> THEN ConcatAxis(FlatOf(a), FlatOf(b), 0)
    ELSE LET d == Len(a.shape) IN
         IF d = 0 \/ ~AxisOk(axisOpt[1], d) THEN Nothing
         ELSE IF ~ConcatOk(a.shape, b.shape, NormAxis(axisOpt[1], d)) THEN Nothing
         ELSE ConcatAxis(a, b, NormAxis(axisOpt[1], d))
Stack(a, b, axis) ==
    LET d == Len(a.shape) IN
    IF a.shape # b.shape \/ ~AxisOk(axis, d + 1) THEN Nothing
    ELSE LET ax == NormAxis(axis, d + 1)
             ea == ArrN(PutAt(a.shape, ax + 1, 1), a.elems)
             eb == ArrN(PutAt(b.shape, ax + 1, 1), b.elems)
         IN ConcatAxis(ea, eb, ax)
AtLeast3D(a) == LET s == a.shape IN
    IF Len(s) = 0 THEN ArrN(<<1, 1, 1>>, a.elems) ELSE IF Len(s) = 1 THEN ArrN(<<1, s[1], 1>>, a.elems)
    ELSE IF Len(s) = 2 THEN ArrN(<<s[1], s[2], 1>>, a.elems) ELSE a
HStack(a, b) == IF Len(a.shape) = 1 /\ Len(b.shape) = 1 THEN ConcatAxis(a, b, 0)
                ELSE IF Len(a.shape) >= 2 /\ ConcatOk(a.shape, b.shape, 1) THEN ConcatAxis(a, b, 1) ELSE Nothing
VStack(a, b) == LET x == AtLeastND(a, 2)  y == AtLeastND(b, 2) IN IF ConcatOk(x.shape, y.shape, 0) THEN ConcatAxis(x, y, 0) ELSE Nothing
DStack(a, b) == LET x == AtLeast3D(a)  y == AtLeast3D(b) IN IF ConcatOk(x.shape, y.shape, 2) THEN ConcatAxis(x, y, 2) ELSE Nothing
AsColumn(a) == IF Len(a.shape) = 1 THEN ArrN(<<a.shape[1], 1>>, a.elems) ELSE a
ColumnStack(a, b) == LET x == AsColumn(a)  y == AsColumn(b) IN
    IF Len(x.shape) = 2 /\ ConcatOk(x.shape, y.shape, 1) THEN ConcatAxis(x, y, 1) ELSE Nothing

\* split into equal sections or at indices; result = sequence of arrays
SliceAxis(a, ax, lo, hi) ==         \* positions lo..hi-1 along ax (0-based)
    LET osh == Set(a.shape, ax + 1, hi - lo)
    IN IF Prod(osh) = 0 THEN ArrN(osh, <<>>) ELSE Mk(osh, LAMBDA i : At(a, Set(i, ax + 1, i[ax + 1] + lo)))
SplitSections(a, n, axis) ==
    LET d == Len(a.shape) IN
    IF ~AxisOk(axis, d) \/ n < 1 THEN <<>>
    ELSE LET ax == NormAxis(axis, d)  ext == a.shape[ax + 1] IN
         IF ext % n # 0 THEN <<>> ELSE [q \in 1..n |-> SliceAxis(a, ax, (q - 1) * (ext \div n), q * (ext \div n))]
SplitIndices(a, idx, axis) ==
    LET d == Len(a.shape)  ax == NormAxis(axis, d)  ext == a.shape[ax + 1]
        cl(v) == Min2(Max2(IF v < 0 THEN v + ext ELSE v, 0), ext)
        bounds == <<0>> \o [q \in 1..Len(idx) |-> cl(idx[q])] \o <<ext>>
    IN [q \in 1..(Len(idx) + 1) |-> SliceAxis(a, ax, bounds[q], Max2(bounds[q], bounds[q + 1]))]

\* ------------------------------------------------------------------ windows / diagonals / triangles
SlidingWindow(a, window, axisOpt) ==   \* window: sequence; axisOpt: <<>> (all axes) or <<axes>>
    LET d == Len(a.shape)
        axes == IF axisOpt = <<>> THEN Range0(d) ELSE axisOpt[1] IN
    IF Len(window) # Len(axes) \/ ~AxesOk(axes, d) THEN Nothing
    ELSE LET ax == NormAxes(axes, d)
             red == [m \in 1..d |-> SumSeq([q \in 1..Len(ax) |-> IF ax[q] + 1 = m THEN window[q] - 1 ELSE 0])] IN
         IF \E m \in 1..d : a.shape[m] - red[m] < 1 THEN Nothing
         ELSE LET osh == [m \in 1..d |-> a.shape[m] - red[m]] \o window
              IN Mk(osh, LAMBDA i : At(a, [m \in 1..d |-> i[m] + SumSeq([q \in 1..Len(ax) |-> IF ax[q] + 1 = m THEN i[d + q] ELSE 0])]))
Diagonal(a, offset, axis1, axis2) ==
    LET d == Len(a.shape) IN
    IF d < 2 \/ ~AxisOk(axis1, d) \/ ~AxisOk(axis2, d) \/ NormAxis(axis1, d) = NormAxis(axis2, d) THEN Nothing
    ELSE LET x == NormAxis(axis1, d)  y == NormAxis(axis2, d)
             n1 == a.shape[x + 1]  n2 == a.shape[y + 1]
             len == IF offset >= 0 THEN Max2(0, Min2(n1, n2 - offset)) ELSE Max2(0, Min2(n1 + offset, n2))
             rest == SelectSeq(Range0(d), LAMBDA m : m # x /\ m # y)
             osh == [q \in 1..Len(rest) |-> a.shape[rest[q] + 1]] \o <<len>>
         IN IF Prod(osh) = 0 THEN ArrN(osh, <<>>)
            ELSE Mk(osh, LAMBDA i : At(a, [m \in 1..d |->
                    IF m - 1 = x THEN i[Len(osh)] + Max2(0, -offset)
                    ELSE IF m - 1 = y THEN i[Len(osh)] + Max2(0, offset)
                    ELSE i[CHOOSE q \in 1..Len(rest) : rest[q] = m - 1]]))
DiagFlat(a, k) ==
    LET f == FlatOf(a)  n == Len(f.elems)  m == n + Abs(k)
    IN Mk(<<m, m>>, LAMBDA i : IF i[2] - i[1] = k /\ Min2(i[1], i[2]) < n THEN f.elems[Min2(i[1], i[2]) + 1] ELSE 0)
Tril(a, k) == LET d == Len(a.shape) IN IF d < 2 THEN Nothing ELSE Mk(a.shape, LAMBDA i : IF i[d] - i[d - 1] <= k THEN At(a, i) ELSE 0)
Triu(a, k) == LET d == Len(a.shape) IN IF d < 2 THEN Nothing ELSE Mk(a.shape, LAMBDA i : IF i[d] - i[d - 1] >= k THEN At(a, i) ELSE 0)

\* ------------------------------------------------------------------ generators
ArangeLen(start, stop, step) == IF step > 0 THEN Max2(0, CeilDiv(stop - start, step)) ELSE Max2(0, CeilDiv(start - stop, -step))
Arange(start, stop, step) == IF step = 0 THEN Nothing ELSE
    LET n == ArangeLen(start, stop, step) IN ArrN(<<n>>, [q \in 1..n |-> start + (q - 1) * step])
\* linspace scaled by its denominator so that all values are integers: K * value(q)
LinspaceScaled(start, stop, num, endpoint) ==
    LET den == IF endpoint THEN Max2(num - 1, 1) ELSE num
    IN ArrN(<<num>>, [q \in 1..num |-> start * den + (q - 1) * (stop - start)])
Eye(n, m, k) == Mk(<<n, m>>, LAMBDA i : IF i[2] - i[1] = k THEN 1 ELSE 0)
Tri(n, m, k) == Mk(<<n, m>>, LAMBDA i : IF i[2] - i[1] <= k THEN 1 ELSE 0)
Full(shape, v) == Mk(shape, LAMBDA i : v)

\* ------------------------------------------------------------------ pad / resize / expand (library definitions)
Pad(a, widths, value) ==            \* widths: <<begin_0..begin_{d-1}, end_0..end_{d-1}>>
    LET d == Len(a.shape) IN
    IF Len(widths) # 2 * d \/ (\E q \in 1..Len(widths) : widths[q] < 0) THEN Nothing
    ELSE LET osh == [m \in 1..d |-> a.shape[m] + widths[m] + widths[d + m]]
         IN Mk(osh, LAMBDA i : IF \A m \in 1..d : i[m] >= widths[m] /\ i[m] < widths[m] + a.shape[m]
                               THEN At(a, [m \in 1..d |-> i[m] - widths[m]]) ELSE value)
Resize(a, dst) ==
    IF Len(dst) # Len(a.shape) \/ (\E m \in 1..Len(dst) : dst[m] < 1) THEN Nothing
    ELSE Mk(dst, LAMBDA i : At(a, [m \in 1..Len(dst) |-> (a.shape[m] * i[m]) \div dst[m]]))
ExpandSp(a, axes, spacing, fill) == \* axes normalised, spacing per listed axis
    LET d == Len(a.shape)
        sp == [m \in 1..d |-> IF \E q \in 1..Len(axes) : axes[q] + 1 = m THEN spacing[CHOOSE q \in 1..Len(axes) : axes[q] + 1 = m] ELSE 0]
        osh == [m \in 1..d |-> a.shape[m] + (a.shape[m] - 1) * sp[m]]
    IN Mk(osh, LAMBDA i : IF \A m \in 1..d : i[m] % (sp[m] + 1) = 0 THEN At(a, [m \in 1..d |-> i[m] \div (sp[m] + 1)]) ELSE fill)
Expand(a, axisOpt, spacing, fill) ==
    LET d == Len(a.shape)
        axes == IF axisOpt = <<>> THEN Range0(d) ELSE axisOpt[1] IN
    IF ~AxesOk(axes, d) \/ ~NoDup(NormAxes(axes, d)) THEN Nothing
    ELSE LET sp == IF Len(spacing) = 1 THEN Const(Len(axes), spacing[1]) ELSE spacing IN
         IF Len(sp) # Len(axes) \/ (\E q \in 1..Len(sp) : sp[q] < 0) THEN Nothing ELSE ExpandSp(a, NormAxes(axes, d), sp, fill)
=================================================================================
