--------------------------------- MODULE Compare ---------------------------------
(* C18 reference semantics of the comparison oracles over the value universe:    *)
(*   [t |-> "num", v]            scalars                                          *)
(*   [t |-> "idx", v]            index arrays (sequences)                         *)
(*   [t |-> "nd", shape, elems]  n-d arrays                                       *)
(*   [t |-> "maybe", has, val]   optionals                                        *)
(*   [t |-> "tuple", items]      tuples                                           *)
(*   [t |-> "either", tag, val]  variants (tag "L" / "R", val = the active alternative); *)
(*                               against a plain value the active alternative is compared *)
(* isclose works on values scaled by 4 (quarters) with eps given in quarters.     *)
EXTENDS Base
RECURSIVE IsEqual(_, _), IsClose(_, _, _)
IsEqual(x, y) ==
    IF x.t = "either" /\ y.t = "either" THEN x.tag = y.tag /\ IsEqual(x.val, y.val)
    ELSE IF x.t = "either" THEN IsEqual(x.val, y)
    ELSE IF y.t = "either" THEN IsEqual(x, y.val)
    ELSE IF x.t # y.t THEN FALSE
    ELSE CASE x.t = "num" -> x.v = y.v
           [] x.t = "idx" -> Len(x.v) = Len(y.v) /\ x.v = y.v
           [] x.t = "nd" -> Len(x.shape) = Len(y.shape) /\ x.shape = y.shape /\ x.elems = y.elems
           [] x.t = "maybe" -> x.has = y.has /\ (x.has => IsEqual(x.val, y.val))
           [] x.t = "tuple" -> Len(x.items) = Len(y.items) /\ \A i \in 1..Len(x.items) : IsEqual(x.items[i], y.items[i])
IsClose(x, y, eps) ==
    IF x.t = "either" /\ y.t = "either" THEN x.tag = y.tag /\ IsClose(x.val, y.val, eps)
    ELSE IF x.t = "either" THEN IsClose(x.val, y, eps)
    ELSE IF y.t = "either" THEN IsClose(x, y.val, eps)
    ELSE IF x.t # y.t THEN FALSE
    ELSE CASE x.t = "num" -> Abs(x.v - y.v) < eps
           [] x.t = "nd" -> x.shape = y.shape /\ \A i \in 1..Len(x.elems) : Abs(x.elems[i] - y.elems[i]) < eps
           [] x.t = "maybe" -> x.has = y.has /\ (x.has => IsClose(x.val, y.val, eps))
           [] x.t = "tuple" -> Len(x.items) = Len(y.items) /\ \A i \in 1..Len(x.items) : IsClose(x.items[i], y.items[i], eps)
=================================================================================
