-------------------------------- MODULE MC_Ufunc --------------------------------
(* Laws of element-wise application and reductions checked by TLC on the scope. *)
EXTENDS Ufunc, TLC
CONSTANTS D, E
VARIABLES a, b
vars == <<a, b>>
S == ShapesOf(0, D, 1..E)
Init == a \in S /\ b \in S
Next == UNCHANGED vars
Spec == Init /\ [][Next]_vars
A == Leaf(a, 0)
B == Leaf(b, 1)
Ew(f) == Elementwise(<<A, B>>, LAMBDA v : Scalar2(f, v[1], v[2]))
LawShapeIsBroadcast == Ew("mix").ok = BShape(a, b)[1] /\ (Ew("mix").ok => Ew("mix").shape = BShape(a, b)[2])
LawMixSeesOperandOrder == Ew("mix").ok =>
    LET swapped == Elementwise(<<A, B>>, LAMBDA v : Scalar2("mix", v[2], v[1])) IN \A q \in 1..Len(Ew("mix").elems) : Ew("mix").elems[q] # swapped.elems[q]
LawCommutativeOps == Ew("add").ok => \A f \in {"add", "multiply", "maximum", "minimum", "equal"} :
    Ew(f).elems = Elementwise(<<B, A>>, LAMBDA v : Scalar2(f, v[1], v[2])).elems
LawOuter == Prod(a) * Prod(b) <= 64 => LET o == Outer("mix", A, B) IN
    /\ o.shape = a \o b
    /\ \A i \in 1..Prod(a), j \in 1..Prod(b) : o.elems[(i - 1) * Prod(b) + j] = Mix(A.elems[i], B.elems[j])
\* reductions: a fold with mix over one axis equals folding the moved-to-front slices; sum of all = sum of partial sums
LawReduceAll == Len(a) >= 1 => /\ Reduce("add", A, <<>>, <<>>, FALSE).elems = <<SumSeq(A.elems)>>
                                /\ Reduce("mix", A, <<>>, <<>>, FALSE).elems = <<FoldL("mix", A.elems[1], A.elems, 2)>>
LawReducePartial == Len(a) >= 1 => \A ax \in 0..(Len(a) - 1) :
    LET r == Reduce("add", A, <<<<ax>>>>, <<>>, FALSE)  k == Reduce("add", A, <<<<ax - Len(a)>>>>, <<>>, TRUE) IN
    /\ r.ok /\ SumSeq(r.elems) = SumSeq(A.elems) /\ r.elems = k.elems
    /\ r.shape = DropAt(a, ax + 1) /\ k.shape = [a EXCEPT ![ax + 1] = 1]
    /\ Reduce("add", A, <<<<ax>>>>, <<5>>, FALSE).elems = [q \in 1..Len(r.elems) |-> r.elems[q] + 5]
LawAccumulateLast == Len(a) >= 1 => \A ax \in 0..(Len(a) - 1) :
    LET acc == Accumulate("mix", A, ax)  r == Reduce("mix", A, <<<<ax>>>>, <<>>, TRUE) IN
    acc.shape = a /\ \A i \in SeqToSet(AllIdx(r.shape)) : At(r, i) = At(acc, [i EXCEPT ![ax + 1] = a[ax + 1] - 1])
=================================================================================
