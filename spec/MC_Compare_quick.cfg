CONSTANTS D = 2 E = 3
SPECIFICATION Spec
INVARIANTS LawReflexive LawSymmetric LawShapeAware LawElementAware LawSameIsEqual LawMaybe
CHECK_DEADLOCK FALSE
