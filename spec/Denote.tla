--------------------------------- MODULE Denote ---------------------------------
(* Dispatch from an operation event to its reference meaning.                    *)
EXTENDS Views

Operand(e, j) == Leaf(e.shapes[j], j - 1)

Expect(e) ==
    LET a == Operand(e, 1) IN
    CASE e.op = "reshape"     -> Reshape(a, e.args.dst)
      [] e.op = "flatten"     -> Flatten(a)
      [] e.op = "transpose"   -> Transpose(a, e.args.axes)
      [] e.op = "moveaxis"    -> MoveAxis(a, e.args.src, e.args.dst)
      [] e.op = "swapaxes"    -> SwapAxes(a, e.args.a1, e.args.a2)
      [] e.op = "expand_dims" -> ExpandDims(a, e.args.axis)
      [] e.op = "squeeze"     -> Squeeze(a)
      [] e.op = "atleast_nd"  -> AtLeastND(a, e.args.nd)
      [] e.op = "flip"        -> Flip(a, e.args.axis)
=================================================================================
