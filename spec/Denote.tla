--------------------------------- MODULE Denote ---------------------------------
(* Dispatch from an operation event to its reference meaning.                    *)
EXTENDS Views, Broadcast, Slice

Operand(e, j) == Leaf(e.shapes[j], j - 1)

Expect(e) ==
    LET a == Operand(e, 1) IN
    CASE e.op = "reshape"     -> Reshape(a, e.args.dst)
      [] e.op = "flatten"     -> Flatten(a)
      [] e.op = "transpose"   -> Transpose(a, e.args.axes)
      [] e.op = "moveaxis"    -> MoveAxis(a, e.args.src, e.args.dst)
      [] e.op = "swapaxes"    -> SwapAxes(a, e.args.a1, e.args.a2)
      [] e.op = "expand_dims" -> ExpandDims(a, e.args.axis)
      [] e.op = "squeeze"     -> Squeeze(a)
      [] e.op = "atleast_nd"  -> AtLeastND(a, e.args.nd)
      [] e.op = "flip"        -> Flip(a, e.args.axis)
      \* C05
      [] e.op = "slice" -> SliceView(a, e.args.parts)
      \* C06
      [] e.op = "broadcast_shape" -> LET r == BShapeN(e.shapes) IN [ok |-> r[1], shape |-> r[2], elems |-> <<>>]
      [] e.op = "shape_broadcast_to" -> IF BroadcastToOk(e.shapes[1], e.args.dst) THEN [ok |-> TRUE, shape |-> e.args.dst, elems |-> <<>>] ELSE Nothing
      [] e.op = "broadcast_to" -> BroadcastTo(a, e.args.dst)
      [] e.op = "broadcast_arrays" ->
            LET r == BShapeN(e.shapes) IN
            IF r[1] THEN [ok |-> TRUE, shape |-> [j \in 1..Len(e.shapes) |-> r[2]],
                          elems |-> [j \in 1..Len(e.shapes) |-> BroadcastTo(Operand(e, j), r[2]).elems]]
            ELSE Nothing
=================================================================================
