--------------------------------- MODULE Denote ---------------------------------
(* Dispatch from an operation event to its reference meaning.                    *)
EXTENDS Views, Select, Broadcast, Slice, Ufunc, Compare, Linalg, NN, NNReal, StackMachine, ComputeGraph, TLC

Operand(e, j) == IF j > Len(e.shapes) THEN Nothing
                 ELSE IF "data" \in DOMAIN e THEN [ok |-> TRUE, shape |-> e.shapes[j], elems |-> e.data[j]]
                 ELSE Leaf(e.shapes[j], j - 1)
BinOps == {"mix", "add", "subtract", "multiply", "divide", "maximum", "minimum", "fmax", "fmin", "equal", "not_equal", "less", "less_equal",
           "greater", "greater_equal", "logical_and", "logical_or", "logical_xor", "bitwise_and", "bitwise_or", "bitwise_xor", "left_shift", "right_shift"}
UnOps == {"mix1", "negative", "positive", "square", "fabs", "logical_not", "invert", "signbit", "relu", "relu6"}
OuterOps == {"outer_mix", "outer_add", "outer_subtract", "outer_multiply"}
OuterName(op) == CASE op = "outer_mix" -> "mix" [] op = "outer_add" -> "add" [] op = "outer_subtract" -> "subtract" [] op = "outer_multiply" -> "multiply"
RedOps == {"reduce_mix", "reduce_add", "reduce_add_f", "reduce_multiply", "reduce_maximum", "reduce_minimum", "sum", "prod", "amax", "amin"}
RedName(op) == CASE op \in {"reduce_add", "reduce_add_f", "sum"} -> "add" [] op \in {"reduce_multiply", "prod"} -> "multiply"
                 [] op \in {"reduce_maximum", "amax"} -> "maximum" [] op \in {"reduce_minimum", "amin"} -> "minimum" [] op = "reduce_mix" -> "mix"
AccOps == {"accumulate_mix", "accumulate_add", "accumulate_multiply", "accumulate_maximum", "cumsum", "cumprod"}
AccName(op) == CASE op \in {"accumulate_add", "cumsum"} -> "add" [] op \in {"accumulate_multiply", "cumprod"} -> "multiply"
                 [] op = "accumulate_maximum" -> "maximum" [] op = "accumulate_mix" -> "mix"
Keep(e) == e.args.keepdims \in {"T", "t"}
Squares(a) == [a EXCEPT !.elems = [q \in 1..Len(a.elems) |-> a.elems[q] * a.elems[q]]]
\* n^2 * variance = n * sum(x^2) - (sum x)^2 with n = mul (mean), n^2 = mul (var/stddev)
ScaledVar(a, e, n) == LET s1 == Reduce("add", a, e.args.axis, <<>>, Keep(e))  s2 == Reduce("add", Squares(a), e.args.axis, <<>>, Keep(e))
                      IN IF ~s1.ok THEN Nothing ELSE [s1 EXCEPT !.elems = [q \in 1..Len(s1.elems) |-> n * s2.elems[q] - s1.elems[q] * s1.elems[q]]]
WithDtype(r, f) == IF r.ok THEN [dtype |-> IF IsPredicate(f) THEN "bool" ELSE IF IsFloatValued(f) THEN "float" ELSE "int"] @@ r ELSE r
\* with explicit operand element types (e.args.etypes): the scalar operation on C++ operands yields a floating value iff an operand is floating
\* (integer operands narrower than int are promoted to int: no wrap-around in the element type of the operands)
FloatOperand(e) == "etypes" \in DOMAIN e.args /\ \E q \in 1..Len(e.args.etypes) : e.args.etypes[q] \in {"f32", "f64"}
WithDtypeE(r, f, e) == IF r.ok THEN [dtype |-> IF IsPredicate(f) THEN "bool" ELSE IF IsFloatValued(f) \/ FloatOperand(e) THEN "float" ELSE "int"] @@ r ELSE r

\* the source indices of the listed result indices, concatenated
SliceSrcIndices(shape, parts, at) ==
    LET d == Len(shape) IN [m \in 1..(Len(at) * d) |-> SliceSrcIndex(shape, parts, at[((m - 1) \div d) + 1])[((m - 1) % d) + 1]]
\* C07, real-valued functions: the scalar function is uninterpreted, its table on the operand values comes with the event
TabLookup1(tab, k) == LET i == CHOOSE i \in 1..Len(tab) : tab[i].k = k IN tab[i].v
TabLookup2(tab, k, j) == LET i == CHOOSE i \in 1..Len(tab) : tab[i].k = k /\ tab[i].j = j IN tab[i].v
WithTol(e, r) == IF e.args.mode = "approx" /\ r.ok THEN [tol |-> e.args.tol] @@ r ELSE r
\* the meaning of one operation event applied to the first operand value a (programs thread intermediate values through it)
RECURSIVE RunProg(_, _, _)
ExpectWith(e, a) ==
    CASE e.op = "add_self"    -> IF a.ok THEN [a EXCEPT !.elems = [q \in 1..Len(a.elems) |-> 2 * a.elems[q]]] ELSE a     \* C11: add(v, v)
      [] e.op = "concat_self" -> Concatenate(a, a, e.args.axis)                                                          \* C11: concatenate(v, v, axis)
      [] e.op = "cast"        -> a          \* C20 / C09: casting to another array kind or element type keeps shape and values
      [] e.op = "reshape"     -> Reshape(a, e.args.dst)
      [] e.op = "flatten"     -> Flatten(a)
      [] e.op = "transpose"   -> Transpose(a, e.args.axes)
      [] e.op = "moveaxis"    -> MoveAxis(a, e.args.src, e.args.dst)
      [] e.op = "swapaxes"    -> SwapAxes(a, e.args.a1, e.args.a2)
      [] e.op = "expand_dims" -> ExpandDims(a, e.args.axis)
      [] e.op = "squeeze"     -> Squeeze(a)
      [] e.op = "atleast_nd"  -> AtLeastND(a, e.args.nd)
      [] e.op = "flip"        -> Flip(a, e.args.axis)
      \* C04
      [] e.op = "tile" -> Tile(a, e.args.reps)
      [] e.op = "repeat" -> Repeat(a, e.args.repeats, e.args.scalar, e.args.axis)
      [] e.op = "roll" -> Roll(a, e.args.shift, e.args.axis)
      [] e.op = "take" -> Take(a, e.args.indices, e.args.axis)
      [] e.op = "compress" -> Compress(e.args.cond, a, e.args.axis)
      [] e.op = "concatenate" -> Concatenate(a, Operand(e, 2), e.args.axis)
      [] e.op = "stack" -> Stack(a, Operand(e, 2), e.args.axis)
      [] e.op = "hstack" -> HStack(a, Operand(e, 2))
      [] e.op = "vstack" -> VStack(a, Operand(e, 2))
      [] e.op = "dstack" -> DStack(a, Operand(e, 2))
      [] e.op = "column_stack" -> ColumnStack(a, Operand(e, 2))
      [] e.op = "split" -> LET parts == IF e.args.sections # <<>> THEN SplitSections(a, e.args.sections[1], e.args.axis)
                                        ELSE SplitIndices(a, e.args.indices, e.args.axis)
                           IN IF Len(parts) = 0 THEN Nothing
                              ELSE [ok |-> TRUE, shape |-> [q \in 1..Len(parts) |-> parts[q].shape], elems |-> [q \in 1..Len(parts) |-> parts[q].elems]]
      [] e.op = "sliding_window" -> SlidingWindow(a, e.args.window, e.args.axis)
      [] e.op = "diagonal" -> Diagonal(a, e.args.offset, e.args.axis1, e.args.axis2)
      [] e.op = "diagflat" -> DiagFlat(a, e.args.k)
      [] e.op = "tril" -> Tril(a, e.args.k)
      [] e.op = "triu" -> Triu(a, e.args.k)
      \* C14: a composition with combinators applied to its operands (any split of the operand list, either grouping) leaves the stack of the machine
      [] e.op = "fstack" ->
            LET comp == [m \in 1..Len(e.comp) |-> SigOf(e.comp[m])]
                n == Len(e.shapes)
                st == Run(comp, [m \in 1..n |-> L(LeafNames[m])])
                env == [nm \in {LeafNames[m] : m \in 1..n} |-> e.data[CHOOSE m \in 1..n : LeafNames[m] = nm]]
            IN IF st = Stuck THEN Nothing
               ELSE [ok |-> TRUE, shape |-> [m \in 1..Len(st) |-> e.shapes[1]], elems |-> [m \in 1..Len(st) |-> Interp(st[m], env)]]
      [] e.op = "fufunc" -> WithTol(e,
            IF Len(e.shapes) = 1 THEN [ok |-> TRUE, shape |-> a.shape, elems |-> [q \in 1..Len(a.elems) |-> TabLookup1(e.args.tab, a.elems[q])]]
            ELSE LET r == BShapeN(e.shapes) IN
                 IF ~r[1] THEN Nothing
                 ELSE LET x == BroadcastTo(a, r[2])  y == BroadcastTo(Operand(e, 2), r[2])
                      IN [ok |-> TRUE, shape |-> r[2], elems |-> [q \in 1..Len(x.elems) |-> TabLookup2(e.args.tab, x.elems[q], y.elems[q])]])
      [] e.op = "where" -> LET r == BShapeN(e.shapes) IN
            IF ~r[1] THEN Nothing
            ELSE LET cnd == BroadcastTo(a, r[2])  x == BroadcastTo(Operand(e, 2), r[2])  y == BroadcastTo(Operand(e, 3), r[2])
                 IN [ok |-> TRUE, shape |-> r[2], elems |-> [q \in 1..Len(x.elems) |-> IF (cnd.elems[q] % 3) - 1 # 0 THEN x.elems[q] ELSE y.elems[q]]]     \* the driver maps condition values to -1 / 0 / 1: any non-zero value is true
      [] e.op = "arange" -> Arange(e.args.start, e.args.stop, e.args.step)
      [] e.op = "arange2" -> Arange(e.args.start, e.args.stop, 1)
      [] e.op = "arange1" -> Arange(0, e.args.stop, 1)
      [] e.op = "arange_at" -> LET st == IF e.args.form = 3 THEN e.args.step ELSE 1   s0 == IF e.args.form = 1 THEN 0 ELSE e.args.start IN
            [ok |-> TRUE, shape |-> <<ArangeLen(s0, e.args.stop, st)>>, elems |-> [q \in 1..Len(e.args.at) |-> s0 + e.args.at[q] * st]]
      [] e.op = "linspace" -> LinspaceScaled(e.args.start, e.args.stop, e.args.num, e.args.endpoint)
      [] e.op = "eye" -> Eye(e.args.n, e.args.m, e.args.k)
      [] e.op = "identity" -> Eye(e.args.n, e.args.n, 0)
      [] e.op = "tri" -> Tri(e.args.n, e.args.m, e.args.k)
      [] e.op = "full" -> Full(e.args.shape, e.args.value)
      [] e.op = "zeros" -> Full(e.args.shape, 0)
      [] e.op = "ones" -> Full(e.args.shape, 1)
      [] e.op = "full_like" -> Full(a.shape, e.args.value)
      [] e.op = "zeros_like" -> Full(a.shape, 0)
      [] e.op = "ones_like" -> Full(a.shape, 1)
      [] e.op = "pad" -> Pad(a, e.args.widths, e.args.value)
      [] e.op = "resize" -> Resize(a, e.args.dst)
      [] e.op = "expand" -> Expand(a, e.args.axis, e.args.spacing, e.args.fill)
      \* C07
      \* C14: a binary ufunc over two views (the nested view may be either operand): f(va(a), vb(b))
      \* C13 / C14: a chain of three unary / binary steps f3(f2(f1(a))) (depth-3 view types in the quick tier); binary steps take operand 2
      [] e.op = "chain3" ->
            LET b == Operand(e, 2)
                st(v, o) == CASE o = "negative" -> Elementwise(<<v>>, LAMBDA x : Scalar1("negative", x[1]))
                              [] o = "square" -> Elementwise(<<v>>, LAMBDA x : Scalar1("square", x[1]))
                              [] o = "add_b" -> Elementwise(<<v, b>>, LAMBDA x : Scalar2("add", x[1], x[2]))
                              [] o = "sub_b" -> Elementwise(<<v, b>>, LAMBDA x : Scalar2("subtract", x[1], x[2]))
                r == st(st(st(a, e.args.ops[1]), e.args.ops[2]), e.args.ops[3])
            IN [ok |-> r.ok, shape |-> r.shape, elems |-> r.elems]
      [] e.op = "tree" ->
            LET vw(x, w) == CASE w = "id" -> x [] w = "transpose" -> Transpose(x, <<>>) [] w = "flatten" -> Flatten(x)
                r == Elementwise(<<vw(a, e.args.va), vw(Operand(e, 2), e.args.vb)>>, LAMBDA v : Scalar2(e.args.f, v[1], v[2]))
            IN [ok |-> r.ok, shape |-> r.shape, elems |-> r.elems]
      [] e.op \in BinOps -> WithDtypeE(Elementwise(<<a, Operand(e, 2)>>, LAMBDA v : Scalar2(e.op, v[1], v[2])), e.op, e)
      [] e.op \in UnOps -> WithDtypeE(Elementwise(<<a>>, LAMBDA v : Scalar1(e.op, v[1])), e.op, e)
      [] e.op \in OuterOps -> WithDtype(Outer(OuterName(e.op), a, Operand(e, 2)), OuterName(e.op))
      \* C08
      [] e.op \in RedOps -> Reduce(RedName(e.op), a, e.args.axis, e.args.initial, Keep(e))
      [] e.op \in AccOps -> Accumulate(AccName(e.op), a, e.args.axis)
      [] e.op = "mean" -> Reduce("add", a, e.args.axis, <<>>, Keep(e))
      [] e.op \in {"var", "stddev"} -> ScaledVar(a, e, e.args.n)
      [] e.op = "vector_norm" -> Reduce("add", Squares(a), e.args.axis, <<>>, Keep(e))
      \* C18 (operands are given as values of the comparison universe)
      [] e.op = "isequal" -> [ok |-> TRUE, shape |-> <<>>, elems |-> <<Bool(IsEqual(e.args.a, e.args.b))>>]
      [] e.op = "isclose" -> [ok |-> TRUE, shape |-> <<>>, elems |-> <<Bool(IsClose(e.args.a, e.args.b, e.args.eps4))>>]
      \* C16
      [] e.op \in {"matmul", "matmulv2"} -> Matmul(a, Operand(e, 2))
      [] e.op = "dot" -> DotProduct(a, Operand(e, 2))
      [] e.op = "inner" -> Inner(a, Operand(e, 2))
      [] e.op = "outerp" -> OuterProduct(a, Operand(e, 2))
      [] e.op = "vecdot" -> Vecdot(a, Operand(e, 2))
      [] e.op = "kron" -> Kron(a, Operand(e, 2))
      [] e.op = "tensordot" -> IF e.args.int THEN Tensordot(a, Operand(e, 2), e.args.n)
                               ELSE TensordotAxes(a, Operand(e, 2), NormAxes(e.args.axa, Len(a.shape)), NormAxes(e.args.axb, Len(e.shapes[2])))
      [] e.op = "trace" -> LET dg == Diagonal(a, e.args.offset, e.args.axis1, e.args.axis2) IN
                           IF ~dg.ok THEN Nothing ELSE Reduce("add", dg, <<<<Len(dg.shape) - 1>>>>, <<0>>, FALSE)
      \* C17
      [] e.op = "conv2d" -> ConvND(2, a, Operand(e, 2), IF e.args.bias THEN <<Operand(e, 3)>> ELSE <<>>, e.args.stride, e.args.padding, e.args.dilation, e.args.groups)
      [] e.op = "conv1d" -> ConvND(1, a, Operand(e, 2), IF e.args.bias THEN <<Operand(e, 3)>> ELSE <<>>, e.args.stride, e.args.padding, e.args.dilation, e.args.groups)
      [] e.op = "max_pool2d" -> Pool2d("max", a, e.args.kernel, e.args.stride, e.args.ceil)
      [] e.op = "avg_pool2d" -> Pool2d("avg", a, e.args.kernel, e.args.stride, e.args.ceil)
      [] e.op = "softmax" -> Approx(Softmax(a, e.args.axis, 1), e.args.tol)
      [] e.op = "softmin" -> Approx(Softmax(a, e.args.axis, -1), e.args.tol)
      [] e.op = "batch_norm" -> Approx(BatchNorm(a, Operand(e, 2), Operand(e, 3), Operand(e, 4), Operand(e, 5)), e.args.tol)
      [] e.op = "layer_norm" -> Approx(LayerNorm(a, Operand(e, 2), Operand(e, 3)), e.args.tol)
      [] e.op = "instance_norm" -> Approx(InstanceNorm(a, Operand(e, 2), Operand(e, 3), e.args.nd), e.args.tol)
      [] e.op = "group_norm" -> Approx(GroupNormNC(a, e.args.groups, Operand(e, 2), Operand(e, 3)), e.args.tol)
      [] e.op = "bilinear" -> Bilinear(a, Operand(e, 2), Operand(e, 3), IF e.args.bias THEN <<Operand(e, 4)>> ELSE <<>>)
      [] e.op = "pairwise_distance" -> Approx(PairwiseDistance(a, Operand(e, 2), e.args.keepdims), e.args.tol)
      [] e.op = "cosine_similarity" -> Approx(CosineSimilarity(a, Operand(e, 2), e.args.axis), e.args.tol)
      [] e.op = "linear" -> Linear(a, Operand(e, 2), IF e.args.bias THEN <<Operand(e, 3)>> ELSE <<>>)
      \* C09 / C01: index functions (results are shape-like: carried in the shape field)
      [] e.op = "compute_strides" -> [ok |-> TRUE, shape |-> Strides(e.shapes[1]), elems |-> <<>>]
      [] e.op = "product" -> [ok |-> TRUE, shape |-> <<Prod(e.shapes[1])>>, elems |-> <<>>]
      [] e.op = "reverse" -> [ok |-> TRUE, shape |-> Reverse(e.shapes[1]), elems |-> <<>>]
      [] e.op = "compute_indices" -> [ok |-> TRUE, shape |-> Unravel(e.args.k, e.shapes[1]), elems |-> <<>>]
      [] e.op = "shape_reshape" -> LET r == ReshapeShape(Prod(e.shapes[1]), e.args.dst) IN IF r[1] THEN [ok |-> TRUE, shape |-> r[2], elems |-> <<>>] ELSE Nothing
      \* C05
      [] e.op = "slice" -> SliceView(a, e.args.parts)
      \* C05 at the index level (no array behind the shape: extents up to 2^31 - 1): result shape and the source index of listed result indices
      [] e.op = "slice_index" -> IF ~SpecOk(e.shapes[1], e.args.parts) THEN Nothing
            ELSE [ok |-> TRUE, shape |-> SliceShape(e.shapes[1], e.args.parts),
                  elems |-> SliceSrcIndices(e.shapes[1], e.args.parts, e.args.at)]
      \* C20: a write through a mutable view changes exactly the source element the reference view reads at that index
      \*      (operand data is injective, value = flat position + 1: the expected changed positions are the view's elements - 1)
      [] e.op = "mutable_write" ->
            LET v == CASE e.args.view = "flatten" -> Flatten(a)
                       [] e.args.view = "ref" -> a
                       [] e.args.view = "reshape" -> Reshape(a, e.args.vargs.dst)
                       [] e.args.view = "slice" -> SliceView(a, e.args.vargs.parts)
            IN IF v.ok THEN [ok |-> TRUE, shape |-> v.shape, elems |-> [q \in 1..Len(v.elems) |-> v.elems[q] - 1]] ELSE Nothing
      \* C06
      [] e.op = "broadcast_shape" -> LET r == BShapeN(e.shapes) IN [ok |-> r[1], shape |-> r[2], elems |-> <<>>]
      [] e.op = "shape_broadcast_to" -> IF BroadcastToOk(e.shapes[1], e.args.dst) THEN [ok |-> TRUE, shape |-> e.args.dst, elems |-> <<>>] ELSE Nothing
      [] e.op = "broadcast_to" -> BroadcastTo(a, e.args.dst)
      [] e.op = "broadcast_arrays" ->
            LET r == BShapeN(e.shapes) IN
            IF r[1] THEN [ok |-> TRUE, shape |-> [j \in 1..Len(e.shapes) |-> r[2]],
                          elems |-> [j \in 1..Len(e.shapes) |-> BroadcastTo(Operand(e, j), r[2]).elems]]
            ELSE Nothing
      \* C10: a program is a chain of steps over a leaf; Nothing propagates
      [] e.op = "program" -> LET v == RunProg(e.prog, 1, a) IN [ok |-> v.ok, shape |-> v.shape, elems |-> v.elems]
      \* C14: extraction facts of a program's view (valid programs only)
      [] e.op = "program_operands" -> LET v == RunProg(e.prog, 1, a)  nbin == Cardinality({q \in 1..Len(e.prog) : e.prog[q].op \in BinOps}) IN
            IF v.ok THEN [ok |-> TRUE, shape |-> <<>>, elems |-> Range0(nbin + 1)] ELSE Nothing
      \* C14: the compute graph of a DAG expression (ComputeGraph.tla): [#nodes, #edges, no duplicate node keys], canonical listing
      [] e.op = "graph_dag" -> LET T == e.args.terms IN
            [ok |-> TRUE, shape |-> <<Cardinality(GraphNodes(T)), Cardinality(GraphEdges(T)), 0>>, elems |-> GraphListing(T)]
      [] e.op = "program_graph" -> LET v == RunProg(e.prog, 1, a)  nbin == Cardinality({q \in 1..Len(e.prog) : e.prog[q].op \in BinOps}) IN
            IF v.ok THEN [ok |-> TRUE, shape |-> <<>>, elems |-> <<nbin + 1, 1, 1, 0, 1>>] ELSE Nothing
RunProg(prog, k, v) == IF k > Len(prog) \/ ~v.ok THEN v ELSE RunProg(prog, k + 1, ExpectWith(prog[k], v))
Expect(e) == ExpectWith(e, Operand(e, 1))    \* generators have no operand (shapes = <<>>)
=================================================================================
