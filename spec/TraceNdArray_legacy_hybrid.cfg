CONSTANTS KindDesc <- Desc_legacy_hybrid Shapes <- ShapesQuick MaxHist = 1000
SPECIFICATION TraceSpec
POSTCONDITION TraceAccepted
CHECK_DEADLOCK FALSE
