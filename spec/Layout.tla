--------------------------------- MODULE Layout ---------------------------------
(* C01: the addressing machine.  A cursor walks the flat positions 0..Prod-1 of *)
(* a shape; each step converts the position to a multi-index the way the code   *)
(* does ((k div stride_i) mod extent_i, strides from the suffix-product loop).  *)
(* Invariants state the property: round trip, in-box, successor order,          *)
(* exactly-once enumeration, and agreement of row-/column-major addressing.     *)
EXTENDS Base, TLC

CONSTANTS Shapes          \* the scope: a set of shapes

VARIABLES shape, k, idx, visited, prev
vars == <<shape, k, idx, visited, prev>>

\* implementation-shaped strides: the loop of compute_strides (right to left running product)
RECURSIVE ImplStridesLoop(_, _, _, _)
ImplStridesLoop(s, i, acc, out) ==
    IF i < 1 THEN out ELSE ImplStridesLoop(s, i - 1, acc * s[i], [out EXCEPT ![i] = acc])
ImplStrides(s) == ImplStridesLoop(s, Len(s), 1, [i \in 1..Len(s) |-> 0])
ImplUnravel(kk, s) == LET st == ImplStrides(s) IN [i \in 1..Len(s) |-> (kk \div st[i]) % s[i]]

BufPos(i, s, layout) == IF layout = "C" THEN OffsetS(i, Strides(s)) ELSE OffsetS(i, ColStrides(s))

Init == /\ shape \in Shapes
        /\ k = 0
        /\ idx = <<>>
        /\ prev = <<>>
        /\ visited = {}
Step == /\ k < Prod(shape)
        /\ idx' = ImplUnravel(k, shape)
        /\ prev' = idx
        /\ visited' = visited \cup {idx'}
        /\ k' = k + 1
        /\ UNCHANGED shape
Next == Step
Spec == Init /\ [][Next]_vars

StridesAreSuffixProducts == ImplStrides(shape) = Strides(shape)
InShape == k > 0 => InBox(idx, shape)
RoundTrip == k > 0 => /\ Offset(idx, shape) = k - 1
                      /\ Unravel(Offset(idx, shape), shape) = idx
Successor == (k > 1) => LexLess(prev, idx, 1)
ExactlyOnce == /\ Cardinality(visited) = k
               /\ (k = Prod(shape) => \A i \in visited : InBox(i, shape))
\* both layouts are injective on the box and stay below the element count; checked on completion of the walk
LayoutsAgree == k = Prod(shape) =>
    \A L \in {"C", "F"} :
        /\ \A i \in visited : BufPos(i, shape, L) \in 0..(Prod(shape) - 1)
        /\ Cardinality({BufPos(i, shape, L) : i \in visited}) = Cardinality(visited)
ColStridesMirror == ColStrides(shape) = Reverse(Strides(Reverse(shape)))
=================================================================================
