------------------------------ MODULE TraceOptions ------------------------------
(* Trace validation of maybe / either / tuple histories against Options.tla.     *)
EXTENDS Options, Json, IOUtils
TraceLog == ndJsonDeserialize(IOEnv.TRACE)
VARIABLES l, bad
tvars == <<vars, l, bad>>
Ev == TraceLog[l]
Note(why, exp) == Append(bad, [l |-> l, id |-> Ev.id, why |-> why, expect |-> exp])
Proj(r) == [o \in Obj |-> r[o]]
TInit == Init /\ l = 1 /\ bad = <<>>
TBegin == /\ l <= Len(TraceLog) /\ Ev.e = "begin" /\ ref' = [o \in Obj |-> Dead] /\ hist' = <<>> /\ UNCHANGED bad /\ l' = l + 1
TStep == /\ l <= Len(TraceLog) /\ Ev.e = "step"
         /\ IF Enabled(Ev.act)
            THEN /\ Do(Ev.act)
                 /\ LET good == Ev.proj = Proj(ref') /\ Ev.bad_free = 0 /\ (Kind = "maybe_vec" => Ev.allocs = LiveBuffers(ref')) /\ (Kind # "maybe_vec" => Ev.allocs = 0)
                    IN bad' = IF good THEN bad ELSE Note("state after " \o Ev.act.op, [proj |-> Proj(ref'), allocs |-> LiveBuffers(ref')])
            ELSE /\ UNCHANGED vars /\ bad' = Note("action not enabled in the specification", [proj |-> Proj(ref), allocs |-> 0])
         /\ l' = l + 1
TEnd == /\ l <= Len(TraceLog) /\ Ev.e = "end"
        /\ bad' = IF Ev.allocs = 0 /\ Ev.bad_free = 0 THEN bad ELSE Note("allocator ledger at the end of the history", [proj |-> <<>>, allocs |-> 0])
        /\ UNCHANGED vars /\ l' = l + 1
TCrash == /\ l <= Len(TraceLog) /\ Ev.e = "crash" /\ bad' = Note("crash", [proj |-> <<>>, allocs |-> 0]) /\ UNCHANGED vars /\ l' = l + 1
TFinish == /\ l = Len(TraceLog) + 1 /\ ndJsonSerialize(IOEnv.OUT, bad) /\ l' = l + 1 /\ UNCHANGED <<vars, bad>>
TNext == TBegin \/ TStep \/ TEnd \/ TCrash \/ TFinish
TraceSpec == TInit /\ [][TNext]_tvars
TraceAccepted == TLCGet("stats").diameter = Len(TraceLog) + 2
=================================================================================
