------------------------------ MODULE TraceLayout ------------------------------
(* Trace validation for C01: the events logged by drv_layout (begin/step/end)   *)
(* must be a behaviour of the addressing machine of Layout.tla.  Mismatching    *)
(* events are accumulated in `bad` and serialised at the end of the trace.      *)
EXTENDS Layout, Json, IOUtils

TraceLog == ndJsonDeserialize(IOEnv.TRACE)
VARIABLES l, bad
tvars == <<vars, l, bad>>

Ev == TraceLog[l]
Note(why, exp) == Append(bad, [l |-> l, id |-> Ev.id, why |-> why, expect |-> exp])

TInit == /\ l = 1 /\ bad = <<>>
         /\ shape = <<1>> /\ k = 1 /\ idx = <<0>> /\ prev = <<>> /\ visited = {<<0>>}

TBegin == /\ l <= Len(TraceLog) /\ Ev.e = "begin"
          /\ shape' = Ev.shape /\ k' = 0 /\ idx' = <<>> /\ prev' = <<>> /\ visited' = {}
          /\ LET exp == [strides |-> Strides(Ev.shape), prod |-> Prod(Ev.shape), rev |-> Reverse(Ev.shape)]
                 good == Ev.strides = exp.strides /\ Ev.prod = exp.prod /\ Ev.rev = exp.rev
             IN bad' = IF good THEN bad ELSE Note("begin", exp)
          /\ l' = l + 1

TStep == /\ l <= Len(TraceLog) /\ Ev.e = "step"
         /\ IF k < Prod(shape)
            THEN /\ Step
                 /\ LET good == /\ Ev.k = k /\ Ev.idx = idx' /\ Ev.idx2 = idx' /\ Ev.nd = idx'
                                /\ Ev.off = k
                                /\ InBox(Ev.idx, shape) /\ Offset(Ev.idx, shape) = k
                    IN bad' = IF good THEN bad ELSE Note("step", [k |-> k, idx |-> idx'])
            ELSE /\ UNCHANGED vars
                 /\ bad' = Note("step beyond the last position", [k |-> k])
         /\ l' = l + 1

TEnd == /\ l <= Len(TraceLog) /\ Ev.e = "end"
        /\ LET all == AllIdx(shape)
               exp == [count |-> Prod(shape),
                       rm |-> [j \in 1..Prod(shape) |-> BufPos(all[j], shape, "C")],
                       cm |-> [j \in 1..Prod(shape) |-> BufPos(all[j], shape, "F")]]
               good == /\ k = Prod(shape) /\ Cardinality(visited) = Prod(shape)
                       /\ Ev.count = exp.count /\ Ev.rm = exp.rm /\ Ev.cm = exp.cm /\ Ev.readback = TRUE
           IN bad' = IF good THEN bad ELSE Note("end", exp)
        /\ UNCHANGED vars
        /\ l' = l + 1

\* index math on huge extents: characterisation without division (idx inside the shape, weighted sum = k)
TBig == /\ l <= Len(TraceLog) /\ Ev.e = "big"
        /\ LET exp == [strides |-> Strides(Ev.shape), idx |-> Unravel(Ev.k, Ev.shape)]
               good == /\ Ev.strides = exp.strides /\ Ev.prod = Prod(Ev.shape)
                       /\ InBox(Ev.idx, Ev.shape) /\ OffsetS(Ev.idx, exp.strides) = Ev.k
                       /\ Ev.idx2 = Ev.idx /\ Ev.off = Ev.k /\ Ev.idx = exp.idx
           IN bad' = IF good THEN bad ELSE Note("big", exp)
        /\ UNCHANGED vars
        /\ l' = l + 1

TFinish == /\ l = Len(TraceLog) + 1
           /\ ndJsonSerialize(IOEnv.OUT, bad)
           /\ l' = l + 1
           /\ UNCHANGED <<vars, bad>>

\* a crash event of the driver (signal, abort, exception, timeout) is never accepted
TCrash == /\ l <= Len(TraceLog) /\ Ev.e = "crash"
          /\ bad' = Note("crash", [crash |-> Ev.res.crash])
          /\ UNCHANGED vars
          /\ l' = l + 1

TNext == TBegin \/ TStep \/ TEnd \/ TBig \/ TCrash \/ TFinish
TraceSpec == TInit /\ [][TNext]_tvars

\* the addressing invariants are evaluated in every state of the validated behaviour as well
TraceInv == bad = <<>> => (InShape /\ RoundTrip /\ ExactlyOnce)
\* every line consumed, plus the Finish step
TraceAccepted == TLCGet("stats").diameter = Len(TraceLog) + 2
=================================================================================
