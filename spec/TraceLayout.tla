------------------------------ MODULE TraceLayout ------------------------------
(* Trace validation for C01: the events logged by drv_layout (begin/step/end)   *)
(* must be a behaviour of the addressing machine of Layout.tla.  Mismatching    *)
(* events are accumulated in `bad` and serialised at the end of the trace.      *)
EXTENDS Layout, Json, IOUtils

TraceLog == ndJsonDeserialize(IOEnv.TRACE)
VARIABLES l, bad
tvars == <<vars, l, bad>>

Ev == TraceLog[l]
Note(why, exp) == Append(bad, [l |-> l, id |-> Ev.id, why |-> why, expect |-> exp])

TInit == /\ l = 1 /\ bad = <<>>
         /\ shape = <<1>> /\ k = 1 /\ idx = <<0>> /\ prev = <<>> /\ visited = {<<0>>}

TBegin == /\ l <= Len(TraceLog) /\ Ev.e = "begin"
          /\ shape' = Ev.shape /\ k' = 0 /\ idx' = <<>> /\ prev' = <<>> /\ visited' = {}
          /\ LET exp == [strides |-> Strides(Ev.shape), prod |-> Prod(Ev.shape), rev |-> Reverse(Ev.shape)]
                 good == Ev.strides = exp.strides /\ Ev.prod = exp.prod /\ Ev.rev = exp.rev
             IN bad' = IF good THEN bad ELSE Note("begin", exp)
          /\ l' = l + 1

TStep == /\ l <= Len(TraceLog) /\ Ev.e = "step"
         /\ IF k < Prod(shape)
            THEN /\ Step
                 /\ LET good == /\ Ev.k = k /\ Ev.idx = idx' /\ Ev.idx2 = idx' /\ Ev.nd = idx'
                                /\ Ev.off = k
                                /\ InBox(Ev.idx, shape) /\ Offset(Ev.idx, shape) = k
                    IN bad' = IF good THEN bad ELSE Note("step", [k |-> k, idx |-> idx'])
            ELSE /\ UNCHANGED vars
                 /\ bad' = Note("step beyond the last position", [k |-> k])
         /\ l' = l + 1

TEnd == /\ l <= Len(TraceLog) /\ Ev.e = "end"
        /\ LET all == AllIdx(shape)
               exp == [count |-> Prod(shape),
                       rm |-> [j \in 1..Prod(shape) |-> BufPos(all[j], shape, "C")],
                       cm |-> [j \in 1..Prod(shape) |-> BufPos(all[j], shape, "F")]]
               good == /\ k = Prod(shape) /\ Cardinality(visited) = Prod(shape)
                       /\ Ev.count = exp.count /\ Ev.rm = exp.rm /\ Ev.cm = exp.cm /\ Ev.readback = TRUE
           IN bad' = IF good THEN bad ELSE Note("end", exp)
        /\ UNCHANGED vars
        /\ l' = l + 1

\* index math on huge extents: characterisation without division (idx inside the shape, weighted sum = k)
TBig == /\ l <= Len(TraceLog) /\ Ev.e = "big"
        /\ LET exp == [strides |-> Strides(Ev.shape), idx |-> Unravel(Ev.k, Ev.shape)]
               good == /\ Ev.strides = exp.strides /\ Ev.prod = Prod(Ev.shape)
                       /\ InBox(Ev.idx, Ev.shape) /\ OffsetS(Ev.idx, exp.strides) = Ev.k
                       /\ Ev.idx2 = Ev.idx /\ Ev.off = Ev.k /\ Ev.idx = exp.idx
           IN bad' = IF good THEN bad ELSE Note("big", exp)
        /\ UNCHANGED vars
        /\ l' = l + 1

\* sizes beyond 2^31: wide values are little-endian base-2^15 digit sequences (canonical: no leading zero digit, zero = <<>>)
B15 == 32768
RECURSIVE MulCarry(_, _, _, _)
MulCarry(a, m, i, carry) == IF i > Len(a) THEN (IF carry = 0 THEN <<>> ELSE IF carry < B15 THEN <<carry>> ELSE <<carry % B15, carry \div B15>>)
                            ELSE LET t == a[i] * m + carry IN <<t % B15>> \o MulCarry(a, m, i + 1, t \div B15)
RECURSIVE Strip(_)
Strip(a) == IF a # <<>> /\ a[Len(a)] = 0 THEN Strip(SubSeq(a, 1, Len(a) - 1)) ELSE a
MulSmall(a, m) == Strip(MulCarry(a, m, 1, 0))              \* m < 2^15
RECURSIVE AddCarry(_, _, _, _)
AddCarry(a, b, i, carry) == IF i > Len(a) /\ i > Len(b) THEN (IF carry = 0 THEN <<>> ELSE <<carry>>)
                            ELSE LET t == (IF i <= Len(a) THEN a[i] ELSE 0) + (IF i <= Len(b) THEN b[i] ELSE 0) + carry IN <<t % B15>> \o AddCarry(a, b, i + 1, t \div B15)
BigAdd(a, b) == Strip(AddCarry(a, b, 1, 0))
RECURSIVE WideStrides(_, _)
WideStrides(s, i) == IF i = Len(s) THEN <<<<1>>>> ELSE LET rest == WideStrides(s, i + 1) IN <<MulSmall(rest[1], s[i + 1])>> \o rest       \* strides of axes i..d
RECURSIVE WideDot(_, _, _)
WideDot(ix, st, i) == IF i > Len(ix) THEN <<>> ELSE BigAdd(MulSmall(st[i], ix[i]), WideDot(ix, st, i + 1))
\* idx inside the shape and sum idx[i] * stride[i] = k characterise idx = unravel(k) (mixed-radix representation is unique)
TWide == /\ l <= Len(TraceLog) /\ Ev.e = "wide"
         /\ LET st == WideStrides(Ev.shape, 1)
                exp == [strides |-> st, prod |-> MulSmall(st[1], Ev.shape[1])]
                good == /\ Ev.strides = st /\ ("prod" \in DOMAIN Ev => Ev.prod = exp.prod)   \* (32-bit fixed containers: the product does not fit their element type and is not logged)
                        /\ InBox(Ev.idx, Ev.shape) /\ WideDot(Ev.idx, st, 1) = Ev.k
                        /\ Ev.idx2 = Ev.idx /\ Ev.off = Ev.k
            IN bad' = IF good THEN bad ELSE Note("wide", exp)
         /\ UNCHANGED vars
         /\ l' = l + 1

TFinish == /\ l = Len(TraceLog) + 1
           /\ ndJsonSerialize(IOEnv.OUT, bad)
           /\ l' = l + 1
           /\ UNCHANGED <<vars, bad>>

\* a crash event of the driver (signal, abort, exception, timeout) is never accepted
TCrash == /\ l <= Len(TraceLog) /\ Ev.e = "crash"
          /\ bad' = Note("crash", [crash |-> Ev.res.crash])
          /\ UNCHANGED vars
          /\ l' = l + 1

TNext == TBegin \/ TStep \/ TEnd \/ TBig \/ TWide \/ TCrash \/ TFinish
TraceSpec == TInit /\ [][TNext]_tvars

\* the addressing invariants are evaluated in every state of the validated behaviour as well
TraceInv == bad = <<>> => (InShape /\ RoundTrip /\ ExactlyOnce)
\* every line consumed, plus the Finish step
TraceAccepted == TLCGet("stats").diameter = Len(TraceLog) + 2
=================================================================================
