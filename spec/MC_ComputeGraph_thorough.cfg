CONSTANTS MaxTerms = 4
SPECIFICATION Spec
INVARIANTS Law ListingLaw
CHECK_DEADLOCK FALSE
