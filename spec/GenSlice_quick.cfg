CONSTANTS N = 4 B = 2 D = 2 E = 3
  BIG = {16777217, 100000001, 2147483639}
INIT GInit
NEXT GNext
