CONSTANTS N = 4 B = 2 D = 2 E = 3
INIT GInit
NEXT GNext
