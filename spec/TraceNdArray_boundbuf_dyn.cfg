CONSTANTS KindDesc <- Desc_boundbuf_dyn Shapes <- ShapesQuick MaxHist = 1000
SPECIFICATION TraceSpec
POSTCONDITION TraceAccepted
CHECK_DEADLOCK FALSE
