CONSTANTS Kind = "small" Cap = 3 Vals = {1, 2} NObj = 2 MaxHist = 6
SPECIFICATION Spec
VIEW View
ACTION_CONSTRAINT Emit
CHECK_DEADLOCK FALSE
