CONSTANTS D = 3 E = 4
SPECIFICATION Spec
INVARIANTS LawShapeIsBroadcast LawMixSeesOperandOrder LawCommutativeOps LawOuter LawReduceAll LawReducePartial LawAccumulateLast
CHECK_DEADLOCK FALSE
