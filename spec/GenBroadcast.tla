------------------------------ MODULE GenBroadcast ------------------------------
(* Case tables for C06: all pairs / triples of shapes of the scope (compatible   *)
(* and incompatible), broadcast_to targets, broadcast_arrays operands.           *)
EXTENDS Broadcast, Json, IOUtils, SequencesExt, TLC
CONSTANTS D, E, D3, E3
PerSrc(S, F(_)) == LET ss == SetToSeq(S) IN FlattenSeq([i \in DOMAIN ss |-> SetToSeq(F(ss[i]))])
S2 == ShapesOf(0, D, 1..E)
S3 == ShapesOf(0, D3, 1..E3)
Case(op, shapes, args) == [op |-> op, shapes |-> shapes, args |-> args]
NoArg == [none |-> TRUE]
Pairs(a) == {Case("broadcast_shape", <<a, b>>, NoArg) : b \in S2}
Triples(a) == {Case("broadcast_shape", <<a, b, c>>, NoArg) : b \in S3 \ {<<>>}, c \in S3 \ {<<>>}}
To(a) == {Case("broadcast_to", <<a>>, [dst |-> b]) : b \in S2 \ {<<>>}} \cup {Case("shape_broadcast_to", <<a>>, [dst |-> b]) : b \in S2 \ {<<>>}}
Arrays2(a) == {Case("broadcast_arrays", <<a, b>>, NoArg) : b \in S2 \ {<<>>}}
Arrays3(a) == {Case("broadcast_arrays", <<a, b, c>>, NoArg) : b \in S3 \ {<<>>}, c \in S3 \ {<<>>}}
Family(f) == CASE f = "pairs" -> PerSrc(S2, Pairs)
               [] f = "triples" -> PerSrc(S3 \ {<<>>}, Triples)
               [] f = "to" -> PerSrc(S2, To)
               [] f = "arrays" -> PerSrc(S2 \ {<<>>}, Arrays2) \o PerSrc(S3 \ {<<>>}, Arrays3)
ASSUME ndJsonSerialize(IOEnv.OUT, Family(IOEnv.FAM))
VARIABLE z
GInit == z = 0
GNext == UNCHANGED z
=================================================================================
