CONSTANTS KindDesc <- Desc_legacy_dynamic Shapes <- ShapesThorough MaxHist = 5
SPECIFICATION Spec
VIEW View
ACTION_CONSTRAINT Emit
CHECK_DEADLOCK FALSE
