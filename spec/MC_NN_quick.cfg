CONSTANTS NMax = 5
SPECIFICATION Spec
INVARIANTS LawConvOutCountsWindows LawPoolFloor LawPoolCeil LawConvIdentity LawMaxPoolCoversAll
CHECK_DEADLOCK FALSE
