CONSTANTS D = 4 E = 4
INIT GInit
NEXT GNext
