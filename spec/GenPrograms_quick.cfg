CONSTANTS Leaves <- LeavesQuick MaxDepth = 2 MaxSize = 48
SPECIFICATION Spec
ACTION_CONSTRAINT Emit
CHECK_DEADLOCK FALSE
