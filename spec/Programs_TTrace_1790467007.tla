---- MODULE Programs_TTrace_1790467007 ----
EXTENDS Programs, Sequences, TLCExt, Toolbox, Naturals, TLC

_expression ==
    LET Programs_TEExpression == INSTANCE Programs_TEExpression
    IN Programs_TEExpression!expression
----

_trace ==
    LET Programs_TETrace == INSTANCE Programs_TETrace
    IN Programs_TETrace!trace
----

_inv ==
    ~(
        TLCGet("level") = Len(_TETrace)
        /\
        val = ([ok |-> FALSE, shape |-> <<>>, elems |-> <<>>])
        /\
        leaf = (<<4>>)
        /\
        prog = (<<[op |-> "mix", args |-> [none |-> TRUE], shapes |-> <<<<>>, <<5>>>>]>>)
    )
----

_init ==
    /\ leaf = _TETrace[1].leaf
    /\ prog = _TETrace[1].prog
    /\ val = _TETrace[1].val
----

_next ==
    /\ \E i,j \in DOMAIN _TETrace:
        /\ \/ /\ j = i + 1
              /\ i = TLCGet("level")
        /\ leaf  = _TETrace[i].leaf
        /\ leaf' = _TETrace[j].leaf
        /\ prog  = _TETrace[i].prog
        /\ prog' = _TETrace[j].prog
        /\ val  = _TETrace[i].val
        /\ val' = _TETrace[j].val

\* Uncomment the ASSUME below to write the states of the error trace
\* to the given file in Json format. Note that you can pass any tuple
\* to `JsonSerialize`. For example, a sub-sequence of _TETrace.
    \* ASSUME
    \*     LET J == INSTANCE Json
    \*         IN J!JsonSerialize("Programs_TTrace_1790467007.json", _TETrace)

=============================================================================

 Note that you can extract this module `Programs_TEExpression`
  to a dedicated file to reuse `expression` (the module in the 
  dedicated `Programs_TEExpression.tla` file takes precedence 
  over the module `Programs_TEExpression` below).

---- MODULE Programs_TEExpression ----
EXTENDS Programs, Sequences, TLCExt, Toolbox, Naturals, TLC

expression == 
    [
        \* To hide variables of the `Programs` spec from the error trace,
        \* remove the variables below.  The trace will be written in the order
        \* of the fields of this record.
        leaf |-> leaf
        ,prog |-> prog
        ,val |-> val
        
        \* Put additional constant-, state-, and action-level expressions here:
        \* ,_stateNumber |-> _TEPosition
        \* ,_leafUnchanged |-> leaf = leaf'
        
        \* Format the `leaf` variable as Json value.
        \* ,_leafJson |->
        \*     LET J == INSTANCE Json
        \*     IN J!ToJson(leaf)
        
        \* Lastly, you may build expressions over arbitrary sets of states by
        \* leveraging the _TETrace operator.  For example, this is how to
        \* count the number of times a spec variable changed up to the current
        \* state in the trace.
        \* ,_leafModCount |->
        \*     LET F[s \in DOMAIN _TETrace] ==
        \*         IF s = 1 THEN 0
        \*         ELSE IF _TETrace[s].leaf # _TETrace[s-1].leaf
        \*             THEN 1 + F[s-1] ELSE F[s-1]
        \*     IN F[_TEPosition - 1]
    ]

=============================================================================



Parsing and semantic processing can take forever if the trace below is long.
 In this case, it is advised to uncomment the module below to deserialize the
 trace from a generated binary file.

\*
\*---- MODULE Programs_TETrace ----
\*EXTENDS Programs, IOUtils, TLC
\*
\*trace == IODeserialize("Programs_TTrace_1790467007.bin", TRUE)
\*
\*=============================================================================
\*

---- MODULE Programs_TETrace ----
EXTENDS Programs, TLC

trace == 
    <<
    ([val |-> [ok |-> TRUE, shape |-> <<4>>, elems |-> <<1, 2, 3, 4>>],leaf |-> <<4>>,prog |-> <<>>]),
    ([val |-> [ok |-> FALSE, shape |-> <<>>, elems |-> <<>>],leaf |-> <<4>>,prog |-> <<[op |-> "mix", args |-> [none |-> TRUE], shapes |-> <<<<>>, <<5>>>>]>>])
    >>
----


=============================================================================

---- CONFIG Programs_TTrace_1790467007 ----
CONSTANTS
    Leaves <- LeavesQuick
    MaxDepth = 2
    MaxSize = 48

INVARIANT
    _inv

CHECK_DEADLOCK
    \* CHECK_DEADLOCK off because of PROPERTY or INVARIANT above.
    FALSE

INIT
    _init

NEXT
    _next

CONSTANT
    _TETrace <- _trace

ALIAS
    _expression
=============================================================================
\* Generated on Sat Sep 26 23:56:48 UTC 2026