------------------------------------ MODULE NN ------------------------------------
(* C17 reference semantics (PyTorch definitions) of the integer-exact neural-network *)
(* routines: convolution (stride, zero padding, dilation, groups, bias), max and    *)
(* average pooling (kernel, stride, ceil mode, overhanging windows) and linear.      *)
EXTENDS Linalg

ArrNN(shape, elems) == [ok |-> TRUE, shape |-> shape, elems |-> elems]
ConvOut(n, k, s, p, d) == LET num == n + 2 * p - d * (k - 1) - 1 IN IF num < 0 THEN 0 ELSE (num \div s) + 1

\* generic n-d convolution over the last nd axes; x: (N, C, spatial...), w: (O, C/g, kernel...)
ConvND(nd, x, w, biasOpt, stride, pad, dil, groups) ==
    LET N == x.shape[1]  Cin == x.shape[2]  O == w.shape[1]  Cg == w.shape[2]
        sp == [q \in 1..nd |-> x.shape[2 + q]]  ks == [q \in 1..nd |-> w.shape[2 + q]]
        os == [q \in 1..nd |-> ConvOut(sp[q], ks[q], stride[q], pad[q], dil[q])]
    IN IF Len(x.shape) # nd + 2 \/ Len(w.shape) # nd + 2 \/ groups < 1 \/ Cin % groups # 0 \/ O % groups # 0 \/ Cg * groups # Cin
          \/ (\E q \in 1..nd : os[q] < 1) \/ (biasOpt # <<>> /\ biasOpt[1].shape # <<O>>)
       THEN Nothing
       ELSE LET kidx == AllIdx(<<Cg>> \o ks)
                og == O \div groups
            IN Mk(<<N, O>> \o os, LAMBDA i :
                  (IF biasOpt = <<>> THEN 0 ELSE biasOpt[1].elems[i[2] + 1]) +
                  SumSeq([t \in 1..Len(kidx) |->
                      LET kc == kidx[t]
                          c == (i[2] \div og) * Cg + kc[1]
                          pos == [q \in 1..nd |-> i[2 + q] * stride[q] - pad[q] + kc[1 + q] * dil[q]]
                      IN IF \A q \in 1..nd : pos[q] >= 0 /\ pos[q] < sp[q]
                         THEN At(x, <<i[1], c>> \o pos) * At(w, <<i[2]>> \o kc) ELSE 0]))

\* pooling over the last two axes; windows that overhang are clipped to the input (no padding)
PoolOut(n, k, s, ceil) == LET o == IF ceil THEN CeilDiv(n - k, s) + 1 ELSE ((n - k) \div s) + 1
                          IN IF ceil /\ (o - 1) * s >= n THEN o - 1 ELSE o
\* sum of the third components of a finite set of triples (order irrelevant)
RECURSIVE SumTriples(_)
SumTriples(S) == IF S = {} THEN 0 ELSE LET t == CHOOSE u \in S : TRUE IN t[3] + SumTriples(S \ {t})
Fact(n) == IF n <= 1 THEN 1 ELSE IF n = 2 THEN 2 ELSE IF n = 3 THEN 6 ELSE 24
Pool2d(kind, x, k, s, ceil) ==      \* kind "max" | "avg" (avg scaled by Fact(kh) * Fact(kw))
    LET d == Len(x.shape) IN
    IF d < 2 \/ x.shape[d - 1] < k[1] \/ x.shape[d] < k[2] THEN Nothing
    ELSE LET H == x.shape[d - 1]  W == x.shape[d]
             oh == PoolOut(H, k[1], s[1], ceil)  ow == PoolOut(W, k[2], s[2], ceil)
             M == Fact(k[1]) * Fact(k[2])
         IN Mk(SubSeq(x.shape, 1, d - 2) \o <<oh, ow>>, LAMBDA i :
                LET y0 == i[d - 1] * s[1]  x0 == i[d] * s[2]
                    ys == {y \in y0..(y0 + k[1] - 1) : y < H}  xs == {xx \in x0..(x0 + k[2] - 1) : xx < W}
                    vals == {<<y, xx, At(x, SubSeq(i, 1, d - 2) \o <<y, xx>>)>> : y \in ys, xx \in xs}
                IN IF kind = "max" THEN (CHOOSE v \in {t[3] : t \in vals} : \A u \in {t[3] : t \in vals} : v >= u)
                   ELSE (M \div Cardinality(vals)) * SumTriples(vals))

Linear(x, w, biasOpt) ==
    LET d == Len(x.shape) IN
    IF d < 1 \/ Len(w.shape) # 2 \/ x.shape[d] # w.shape[2] \/ (biasOpt # <<>> /\ biasOpt[1].shape # <<w.shape[1]>>) THEN Nothing
    ELSE Mk(SubSeq(x.shape, 1, d - 1) \o <<w.shape[1]>>, LAMBDA i :
            (IF biasOpt = <<>> THEN 0 ELSE biasOpt[1].elems[i[d] + 1]) + Sum(x.shape[d], LAMBDA kk : At(x, SubSeq(i, 1, d - 1) \o <<kk>>) * At(w, <<i[d], kk>>)))
=================================================================================
