CONSTANTS D = 4 E = 4 D3 = 3 E3 = 4
SPECIFICATION Spec
INVARIANTS LawCriterion LawCommutative LawIdempotent LawScalarNeutral LawResultIsMax LawBroadcastToResult LawBroadcastToElements LawImplRefinesRef LawAssociative
CHECK_DEADLOCK FALSE
