CONSTANTS Kind = "small" Cap = 3 Vals = {1, 2} NObj = 2 MaxHist = 6
SPECIFICATION Spec
VIEW View
INVARIANTS TypeOK CapacityRespected HiddenCovers ModeConsistent
PROPERTIES Independent SelfAssignHarmless
CHECK_DEADLOCK FALSE
