CONSTANTS D = 3 E = 2
SPECIFICATION Spec
INVARIANTS Law2dMatmulIsTensordot Law1dInnerIsDot LawDotIs2dMatmul LawKronShape LawTensordot0IsOuter LawMatmulShape LawMatmulValidity
CHECK_DEADLOCK FALSE
