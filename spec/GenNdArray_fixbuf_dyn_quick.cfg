CONSTANTS KindDesc <- Desc_fixbuf_dyn Shapes <- ShapesQuick MaxHist = 4
SPECIFICATION Spec
VIEW View
ACTION_CONSTRAINT Emit
CHECK_DEADLOCK FALSE
