-------------------------------- MODULE MC_Views --------------------------------
(* Laws of the reference semantics of C03, checked by TLC on every source shape *)
(* of the scope: a state is a source shape, the invariants quantify over the    *)
(* arguments.  These are the "permutation / involution / C-order" clauses.      *)
EXTENDS Views, TLC
CONSTANTS D, E
VARIABLE s
Init == s \in ShapesOf(0, D, 1..E)
Next == UNCHANGED s
Spec == Init /\ [][Next]_s

A == Leaf(s, 0)
d == Len(s)
Perms(n) == {p \in [1..n -> 0..(n - 1)] : IsPerm(p, n)}
InvPerm(p) == [m \in 1..Len(p) |-> (CHOOSE j \in 1..Len(p) : p[j] + 1 = m) - 1]
SamePopulation(x, y) == Len(x.elems) = Len(y.elems) /\ SeqToSet(x.elems) = SeqToSet(y.elems)

LawTransposeIsPermutation == \A p \in Perms(d) : LET t == TransposeP(A, p) IN
    /\ SamePopulation(t, A) /\ Prod(t.shape) = Prod(s)
    /\ TransposeP(t, InvPerm(p)) = A
LawTransposeDefaultReverses == Transpose(A, <<>>) = TransposeP(A, Reverse(Range0(d)))
LawTransposeNegativeAxes == \A p \in Perms(d) : Transpose(A, <<[i \in 1..d |-> p[i] - d]>>) = TransposeP(A, p)

\* NumPy's own formulation of moveaxis: remove the sources, insert them at the destinations in ascending order
RECURSIVE InsertSorted(_, _)
InsertSorted(order, pairs) ==       \* pairs: set of <<dest, src>>
    IF pairs = {} THEN order
    ELSE LET m == CHOOSE x \in pairs : \A y \in pairs : x[1] <= y[1]
         IN InsertSorted(PutAt(order, m[1] + 1, m[2]), pairs \ {m})
NumpyMoveAxisOrder(n, src, dst) ==
    LET sN == NormAxes(src, n)  tN == NormAxes(dst, n)
    IN InsertSorted(Ascending((0..(n - 1)) \ SeqToSet(sN)), {<<tN[i], sN[i]>> : i \in 1..Len(sN)})
LawMoveAxisIsNumpy ==
    /\ \A x \in (-d)..(d - 1), y \in (-d)..(d - 1) : MoveAxis(A, <<x>>, <<y>>) = TransposeP(A, NumpyMoveAxisOrder(d, <<x>>, <<y>>))
    /\ d <= 3 => \A x1 \in 0..(d - 1), x2 \in (-d)..(d - 1), y1 \in 0..(d - 1), y2 \in (-d)..(d - 1) :
          MoveAxisOk(d, <<x1, x2>>, <<y1, y2>>) => MoveAxis(A, <<x1, x2>>, <<y1, y2>>) = TransposeP(A, NumpyMoveAxisOrder(d, <<x1, x2>>, <<y1, y2>>))
LawSwapAxes == \A x \in (-d)..(d - 1), y \in (-d)..(d - 1) :
    /\ SwapAxes(A, x, y) = SwapAxes(A, y, x)
    /\ SwapAxes(SwapAxes(A, x, y), x, y) = A
    /\ SamePopulation(SwapAxes(A, x, y), A)
LawFlipInvolution == \A S \in SUBSET (0..(d - 1)) : LET ax == <<Ascending(S)>> IN
    /\ Flip(Flip(A, ax), ax) = A
    /\ SamePopulation(Flip(A, ax), A)
    /\ (S = 0..(d - 1)) => Flip(A, ax) = Flip(A, <<>>)
LawFlipAllReversesBuffer == Flip(A, <<>>).elems = Reverse(A.elems)
LawReshapeKeepsCOrder == \A t \in ShapesOf(0, D, 1..(E * E)) : Prod(t) = Prod(s) =>
    /\ Reshape(A, t).ok /\ Reshape(A, t).elems = A.elems /\ Reshape(A, t).shape = t
    /\ \A i \in 1..Len(t) : Reshape(A, [t EXCEPT ![i] = -1]) = Reshape(A, t)
    /\ Reshape(Reshape(A, t), s) = A
LawReshapeRejects == \A t \in ShapesOf(1, 2, -2..3) :
    LET r == Reshape(A, t) IN r.ok => (Prod(r.shape) = Prod(s) /\ \A i \in 1..Len(t) : r.shape[i] >= 1 /\ (t[i] # -1 => r.shape[i] = t[i]))
LawFlattenIsReshape == Flatten(A) = Reshape(A, <<-1>>)
LawExpandSqueeze == \A x \in (-(d + 1))..d : LET e == ExpandDims(A, <<x>>) IN
    /\ e.ok /\ e.elems = A.elems /\ Len(e.shape) = d + 1 /\ e.shape[NormAxis(x, d + 1) + 1] = 1
    /\ DropAt(e.shape, NormAxis(x, d + 1) + 1) = s
    /\ Squeeze(e) = Squeeze(A)
LawAtLeast == \A n \in 0..(D + 1) : LET r == AtLeastND(A, n) IN
    /\ Len(r.shape) = Max2(n, d) /\ r.elems = A.elems /\ Squeeze(r) = Squeeze(A)
=================================================================================
