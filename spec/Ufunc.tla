---------------------------------- MODULE Ufunc ----------------------------------
(* C07/C08 reference semantics: element-wise application under broadcasting,     *)
(* outer application, reductions and accumulations as left folds over exactly    *)
(* the addressed elements in increasing index order.                              *)
EXTENDS Broadcast, Bitwise

\* the recording operation: neither commutative nor associative, so operand order and fold order are visible
Mix(x, y) == (31 * x + 17 * y + 7) % 10007

Bool(b) == IF b THEN 1 ELSE 0
\* C++ truncated division / remainder on integers (the library applies the C++ operators)
TruncDiv(x, y) == IF (x >= 0) = (y > 0) THEN Abs(x) \div Abs(y) ELSE -(Abs(x) \div Abs(y))
TruncMod(x, y) == x - y * TruncDiv(x, y)

\* integer-computable scalar operations
Scalar2(f, x, y) ==
    CASE f = "mix" -> Mix(x, y)
      [] f = "add" -> x + y
      [] f = "subtract" -> x - y
      [] f = "multiply" -> x * y
      [] f = "maximum" -> Max2(x, y)
      [] f = "minimum" -> Min2(x, y)
      [] f = "fmax" -> Max2(x, y)
      [] f = "fmin" -> Min2(x, y)
      [] f = "equal" -> Bool(x = y)
      [] f = "not_equal" -> Bool(x # y)
      [] f = "less" -> Bool(x < y)
      [] f = "less_equal" -> Bool(x <= y)
      [] f = "greater" -> Bool(x > y)
      [] f = "greater_equal" -> Bool(x >= y)
      [] f = "logical_and" -> Bool(x # 0 /\ y # 0)
      [] f = "logical_or" -> Bool(x # 0 \/ y # 0)
      [] f = "logical_xor" -> Bool((x # 0) # (y # 0))
      [] f = "bitwise_and" -> x & y
      [] f = "bitwise_or" -> x | y
      [] f = "bitwise_xor" -> x ^^ y
      [] f = "left_shift" -> x * (2 ^ y)
      [] f = "right_shift" -> x \div (2 ^ y)
      [] f = "mod" -> TruncMod(x, y)
      [] f = "divide" -> TruncDiv(x, y)
Scalar1(f, x) ==
    CASE f = "negative" -> -x
      [] f = "positive" -> x
      [] f = "square" -> x * x
      [] f = "fabs" -> Abs(x)
      [] f = "logical_not" -> Bool(x = 0)
      [] f = "invert" -> -x - 1
      [] f = "signbit" -> Bool(x < 0)
      [] f = "relu" -> Max2(x, 0)
      [] f = "relu6" -> Min2(Max2(x, 0), 6)
      [] f = "mix1" -> Mix(x, 3)
Scalar3(f, x, y, z) == CASE f = "clip" -> Min2(Max2(x, y), z)

\* element class of the result for integer operands: what the C++ scalar operation yields
IsPredicate(f) == f \in {"equal", "not_equal", "less", "less_equal", "greater", "greater_equal", "logical_and", "logical_or", "logical_not", "signbit"}
IsFloatValued(f) == f \in {"fmax", "fmin", "fabs"}

\* element-wise application to broadcast operands (any arity)
Elementwise(ops, F(_)) ==          \* F takes the sequence of operand elements
    LET r == BShapeN([j \in 1..Len(ops) |-> ops[j].shape]) IN
    IF ~r[1] THEN Nothing
    ELSE LET bs == [j \in 1..Len(ops) |-> BroadcastTo(ops[j], r[2])]
         IN [ok |-> TRUE, shape |-> r[2], elems |-> [q \in 1..Prod(r[2]) |-> F([j \in 1..Len(ops) |-> bs[j].elems[q]])]]
Outer(f, a, b) == Mk(a.shape \o b.shape, LAMBDA i : Scalar2(f, At(a, SubSeq(i, 1, Len(a.shape))), At(b, SubSeq(i, Len(a.shape) + 1, Len(i)))))

-------------------------------------------------------------------------------
\* reductions
RECURSIVE FoldL(_, _, _, _)
FoldL(f, acc, s, i) == IF i > Len(s) THEN acc ELSE FoldL(f, Scalar2(f, acc, s[i]), s, i + 1)
FoldSeq1(f, s, init) == IF init = <<>> THEN FoldL(f, s[1], s, 2) ELSE FoldL(f, init[1], s, 1)

ReduceAxesOk(d, axes) == AxesOk(axes, d) /\ NoDup(NormAxes(axes, d))
\* axisOpt: <<>> (None: all axes) or <<axes>>
ReduceShape(shape, S, keepdims) ==
    IF keepdims THEN [m \in 1..Len(shape) |-> IF (m - 1) \in S THEN 1 ELSE shape[m]]
    ELSE LET kept == SelectSeq(Range0(Len(shape)), LAMBDA m : m \notin S) IN [q \in 1..Len(kept) |-> shape[kept[q] + 1]]
Reduce(f, a, axisOpt, init, keepdims) ==
    LET d == Len(a.shape) IN
    IF axisOpt # <<>> /\ ~ReduceAxesOk(d, axisOpt[1]) THEN Nothing
    ELSE LET S == IF axisOpt = <<>> THEN 0..(d - 1) ELSE SeqToSet(NormAxes(axisOpt[1], d))
             red == SelectSeq(Range0(d), LAMBDA m : m \in S)                 \* reduced axes ascending
             kept == SelectSeq(Range0(d), LAMBDA m : m \notin S)
             rshape == [q \in 1..Len(red) |-> a.shape[red[q] + 1]]
             osh == ReduceShape(a.shape, S, keepdims)
             \* the group of a result index: all source indices with matching kept coordinates, in C order of the reduced ones
             Group(i) == LET ki == IF keepdims THEN [q \in 1..Len(kept) |-> i[kept[q] + 1]] ELSE i
                             ri == AllIdx(rshape)
                         IN [g \in 1..Len(ri) |-> At(a, [m \in 1..d |-> IF (m - 1) \in S THEN ri[g][CHOOSE q \in 1..Len(red) : red[q] = m - 1]
                                                                        ELSE ki[CHOOSE q \in 1..Len(kept) : kept[q] = m - 1]])]
         IN Mk(osh, LAMBDA i : FoldSeq1(f, Group(i), init))
Accumulate(f, a, axis) ==
    LET d == Len(a.shape) IN
    IF ~AxisOk(axis, d) THEN Nothing
    ELSE LET ax == NormAxis(axis, d) + 1
         IN Mk(a.shape, LAMBDA i : FoldSeq1(f, [g \in 1..(i[ax] + 1) |-> At(a, [i EXCEPT ![ax] = g - 1])], <<>>))
=================================================================================
