CONSTANTS KindDesc <- Desc_fixbuf_bounddim Shapes <- ShapesQuick MaxHist = 4
SPECIFICATION Spec
VIEW View
INVARIANT Inv
PROPERTIES RefusedChangesNothing WriteTouchesOne CastChangesNothing
CHECK_DEADLOCK FALSE
