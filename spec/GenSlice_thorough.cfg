CONSTANTS N = 6 B = 2 D = 3 E = 3
INIT GInit
NEXT GNext
