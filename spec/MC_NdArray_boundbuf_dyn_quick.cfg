CONSTANTS KindDesc <- Desc_boundbuf_dyn Shapes <- ShapesQuick MaxHist = 4
SPECIFICATION Spec
VIEW View
INVARIANT Inv
PROPERTIES RefusedChangesNothing WriteTouchesOne CastChangesNothing
CHECK_DEADLOCK FALSE
