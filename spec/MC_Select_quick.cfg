CONSTANTS D = 3 E = 3
SPECIFICATION Spec
INVARIANTS LawRollInverse LawRollFlat LawSplitConcat LawSplitIndices LawTileIsConcat LawTilePrepends LawTakeIdentity LawRepeatScalar LawCompressAllTrue LawStack LawPadZeroWidth LawPadProvenance LawResizeIdentity LawResizeDouble LawExpandZero LawExpandProvenance LawSlidingWindowFull LawDiagonal LawTrilTriu LawDiagFlat LawGenerators
CHECK_DEADLOCK FALSE
