CONSTANTS Kind = "tuple" Vals = {1, 2} MaxHist = 4
SPECIFICATION Spec
VIEW View
INVARIANT TypeOK
PROPERTIES Independent SelfAssignHarmless
CHECK_DEADLOCK FALSE
