--------------------------------- MODULE Views ---------------------------------
(* Reference semantics (Layer R) of the rearranging views of C03 as functions   *)
(* from array values [ok, shape, elems] to array values.  NumPy is the meaning. *)
(* Optional arguments are sequences of length 0 (None) or 1.                     *)
EXTENDS Base

Arr(shape, elems) == [ok |-> TRUE, shape |-> shape, elems |-> elems]

-------------------------------------------------------------------------------
\* reshape with at most one inferred (-1) extent; C order is kept
ReshapeShape(n, dst) ==
    LET neg == {i \in 1..Len(dst) : dst[i] = -1}
        illegal == \E i \in 1..Len(dst) : dst[i] < -1 \/ dst[i] = 0
        known == Prod([i \in 1..Len(dst) |-> IF dst[i] = -1 THEN 1 ELSE dst[i]])
    IN IF illegal \/ Cardinality(neg) > 1 THEN <<FALSE, <<>>>>
       ELSE IF neg = {} THEN <<known = n, dst>>
       ELSE IF n % known = 0 THEN <<TRUE, [i \in 1..Len(dst) |-> IF dst[i] = -1 THEN n \div known ELSE dst[i]]>>
       ELSE <<FALSE, <<>>>>
Reshape(a, dst) == LET r == ReshapeShape(Prod(a.shape), dst) IN IF r[1] THEN Arr(r[2], a.elems) ELSE Nothing
Flatten(a) == Arr(<<Prod(a.shape)>>, a.elems)

\* transpose: axes = <<>> (None: reverse) or <<perm>>
TransposeAxes(d, axesOpt) == IF axesOpt = <<>> THEN Reverse(Range0(d)) ELSE NormAxes(axesOpt[1], d)
TransposeOk(d, axesOpt) == axesOpt = <<>> \/ (Len(axesOpt[1]) = d /\ AxesOk(axesOpt[1], d) /\ IsPerm(NormAxes(axesOpt[1], d), d))
TransposeP(a, p) ==      \* p: 0-based permutation, out axis j is source axis p[j]
    LET d == Len(a.shape)
        inv == [m \in 1..d |-> CHOOSE j \in 1..d : p[j] + 1 = m]
    IN Mk([j \in 1..d |-> a.shape[p[j] + 1]], LAMBDA i : At(a, [m \in 1..d |-> i[inv[m]]]))
Transpose(a, axesOpt) == IF TransposeOk(Len(a.shape), axesOpt) THEN TransposeP(a, TransposeAxes(Len(a.shape), axesOpt)) ELSE Nothing

\* moveaxis: sources go to the destinations, the other axes keep their order
RECURSIVE FillRest(_, _, _, _)
FillRest(p, pos, rest, d) ==      \* p: partial permutation with -1 holes; rest: ascending remaining axes
    IF pos > d THEN p
    ELSE IF p[pos] # -1 THEN FillRest(p, pos + 1, rest, d)
    ELSE FillRest([p EXCEPT ![pos] = Head(rest)], pos + 1, Tail(rest), d)
Ascending(S) == LET RECURSIVE Asc(_) Asc(T) == IF T = {} THEN <<>> ELSE LET m == CHOOSE x \in T : \A y \in T : x <= y IN <<m>> \o Asc(T \ {m}) IN Asc(S)
MoveAxisOk(d, src, dst) == /\ Len(src) = Len(dst) /\ AxesOk(src, d) /\ AxesOk(dst, d)
                           /\ NoDup(NormAxes(src, d)) /\ NoDup(NormAxes(dst, d))
MoveAxisPerm(d, src, dst) ==
    LET s == NormAxes(src, d)  t == NormAxes(dst, d)
        p0 == [j \in 1..d |-> IF \E i \in 1..Len(t) : t[i] + 1 = j THEN s[CHOOSE i \in 1..Len(t) : t[i] + 1 = j] ELSE -1]
    IN FillRest(p0, 1, Ascending((0..(d - 1)) \ SeqToSet(s)), d)
MoveAxis(a, src, dst) == IF MoveAxisOk(Len(a.shape), src, dst) THEN TransposeP(a, MoveAxisPerm(Len(a.shape), src, dst)) ELSE Nothing
SwapAxes(a, a1, a2) ==
    LET d == Len(a.shape) IN
    IF AxisOk(a1, d) /\ AxisOk(a2, d)
    THEN LET x == NormAxis(a1, d)  y == NormAxis(a2, d)
         IN TransposeP(a, [j \in 1..d |-> IF j - 1 = x THEN y ELSE IF j - 1 = y THEN x ELSE j - 1])
    ELSE Nothing

\* expand_dims: positions refer to the result's dimension
ExpandDimsOk(d, axes) == LET nd == d + Len(axes) IN AxesOk(axes, nd) /\ NoDup(NormAxes(axes, nd))
RECURSIVE ExpandLoop(_, _, _, _)
ExpandLoop(src, pos, nd, S) == IF pos > nd THEN <<>>
    ELSE IF (pos - 1) \in S THEN <<1>> \o ExpandLoop(src, pos + 1, nd, S)
    ELSE <<Head(src)>> \o ExpandLoop(Tail(src), pos + 1, nd, S)
ExpandDimsShape(shape, axes) == LET nd == Len(shape) + Len(axes) IN ExpandLoop(shape, 1, nd, SeqToSet(NormAxes(axes, nd)))
ExpandDims(a, axes) == IF ExpandDimsOk(Len(a.shape), axes) THEN Arr(ExpandDimsShape(a.shape, axes), a.elems) ELSE Nothing

SelectNot1(s) == SelectSeq(s, LAMBDA x : x # 1)
Squeeze(a) == Arr(SelectNot1(a.shape), a.elems)
AtLeastND(a, nd) == IF Len(a.shape) >= nd THEN a ELSE Arr(Const(nd - Len(a.shape), 1) \o a.shape, a.elems)

\* flip: axis = <<>> (None: all axes) or <<axes>>
FlipOk(d, axisOpt) == axisOpt = <<>> \/ (AxesOk(axisOpt[1], d) /\ NoDup(NormAxes(axisOpt[1], d)))
Flip(a, axisOpt) ==
    LET d == Len(a.shape)
        S == IF axisOpt = <<>> THEN 0..(d - 1) ELSE SeqToSet(NormAxes(axisOpt[1], d))
    IN IF FlipOk(d, axisOpt)
       THEN Mk(a.shape, LAMBDA i : At(a, [m \in 1..d |-> IF (m - 1) \in S THEN a.shape[m] - 1 - i[m] ELSE i[m]]))
       ELSE Nothing
=================================================================================
