CONSTANTS Leaves <- LeavesQuick MaxDepth = 2 MaxSize = 48
SPECIFICATION Spec
INVARIANTS NothingIsFinal Wellformed FusedIsStaged
CHECK_DEADLOCK FALSE
