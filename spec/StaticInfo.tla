-------------------------------- MODULE StaticInfo --------------------------------
(* C11: what the library claims to know about an array/view TYPE at compile time   *)
(* (each an optional: <<>> unknown, <<v>> known) versus a run-time OBJECT of it.   *)
(* Design-level part: an abstract domain per axis (Const n | Clip m | Dyn) with    *)
(* concretisation Gamma and abstract transfer functions for the operations whose   *)
(* result type the library infers; TLC checks soundness on the bounded domain.     *)
EXTENDS Base, TLC

Sound(t, shape) ==
    /\ t.fixed_shape # <<>> => t.fixed_shape[1] = shape
    /\ t.fixed_dim # <<>> => t.fixed_dim[1] = Len(shape)
    /\ t.fixed_size # <<>> => t.fixed_size[1] = Prod(shape)
    /\ t.bounded_dim # <<>> => Len(shape) <= t.bounded_dim[1]
    /\ t.bounded_size # <<>> => Prod(shape) <= t.bounded_size[1]

\* ---------------- abstract domain
CONSTANTS MaxExt
AbsAxis == {<<"const", n>> : n \in 1..MaxExt} \cup {<<"clip", n>> : n \in 1..MaxExt} \cup {<<"dyn", 0>>}
GammaAxis(x) == CASE x[1] = "const" -> {x[2]} [] x[1] = "clip" -> 1..x[2] [] OTHER -> 1..MaxExt
Gamma(abs) == {s \in [1..Len(abs) -> 1..MaxExt] : \A i \in 1..Len(abs) : s[i] \in GammaAxis(abs[i])}
\* what the abstract shape lets the library claim
TraitsOf(abs) ==
    LET allc == \A i \in 1..Len(abs) : abs[i][1] = "const"
        bounded == \A i \in 1..Len(abs) : abs[i][1] \in {"const", "clip"}
    IN [fixed_shape |-> IF allc THEN <<[i \in 1..Len(abs) |-> abs[i][2]]>> ELSE <<>>,
        fixed_dim |-> <<Len(abs)>>,
        fixed_size |-> IF allc THEN <<Prod([i \in 1..Len(abs) |-> abs[i][2]])>> ELSE <<>>,
        bounded_dim |-> <<Len(abs)>>,
        bounded_size |-> IF bounded THEN <<Prod([i \in 1..Len(abs) |-> abs[i][2]])>> ELSE <<>>]
\* abstract transfer functions
AbsTranspose(abs) == Reverse(abs)
AbsFlatten(abs) == IF \A i \in 1..Len(abs) : abs[i][1] = "const" THEN <<<<"const", Prod([i \in 1..Len(abs) |-> abs[i][2]])>>>>
                   ELSE IF \A i \in 1..Len(abs) : abs[i][1] \in {"const", "clip"} THEN <<<<"clip", Prod([i \in 1..Len(abs) |-> abs[i][2]])>>>>
                   ELSE <<<<"dyn", 0>>>>
AbsReduce(abs, ax, keep) == IF keep THEN [abs EXCEPT ![ax] = <<"const", 1>>] ELSE DropAt(abs, ax)
AbsBroadcastAxis(x, y) ==     \* both operands have this axis; the result extent is max(x, y) when compatible
    CASE x[1] = "const" /\ y[1] = "const" -> <<"const", Max2(x[2], y[2])>>
      [] x[1] \in {"const", "clip"} /\ y[1] \in {"const", "clip"} -> <<"clip", Max2(x[2], y[2])>>
      [] OTHER -> <<"dyn", 0>>

\* concatenation along axis ax (1-based): the extents add up on ax - bounds add up too (a bound taken from one operand only
\* would clip the result); on the other axes the operands agree, so the more precise knowledge of either operand is kept
AbsConcatAxis(x, y) == CASE x[1] = "const" /\ y[1] = "const" -> <<"const", x[2] + y[2]>>
                         [] x[1] \in {"const", "clip"} /\ y[1] \in {"const", "clip"} -> <<"clip", x[2] + y[2]>>
                         [] OTHER -> <<"dyn", 0>>
AbsAgreeAxis(x, y) == CASE x[1] = "const" -> x [] y[1] = "const" -> y
                        [] x[1] = "clip" /\ y[1] = "clip" -> <<"clip", Min2(x[2], y[2])>>
                        [] x[1] = "clip" -> x [] y[1] = "clip" -> y [] OTHER -> <<"dyn", 0>>
AbsConcat(a, b, ax) == [i \in 1..Len(a) |-> IF i = ax THEN AbsConcatAxis(a[i], b[i]) ELSE AbsAgreeAxis(a[i], b[i])]
\* tiling with known repetition counts (aligned at the last axis, axes are prepended when there are more counts than axes)
AbsTileAxis(x, r) == CASE x[1] = "const" -> <<"const", x[2] * r>> [] x[1] = "clip" -> <<"clip", x[2] * r>> [] OTHER -> <<"dyn", 0>>
AbsTile(a, reps) == LET n == Max2(Len(a), Len(reps))
                        pa == [i \in 1..n |-> IF i <= n - Len(a) THEN <<"const", 1>> ELSE a[i - (n - Len(a))]]
                        pr == [i \in 1..n |-> IF i <= n - Len(reps) THEN 1 ELSE reps[i - (n - Len(reps))]]
                    IN [i \in 1..n |-> AbsTileAxis(pa[i], pr[i])]
\* take with run-time indices along ax: the extent is the number of indices - nothing of the source's knowledge about ax survives
AbsTake(a, ax) == [a EXCEPT ![ax] = <<"dyn", 0>>]

\* ---------------- joining the axes of a shape into ONE index type (what reading an extent at a run-time position returns:
\* meta::common_type of the axis types).  A range is <<lo, hi>>, <<>> stands for a plain (unbounded) integer.
\* clipped_integer_t<T,0,n> has range 0..n; a value outside the range of the joined type is clipped on conversion.
SeqMax(q) == CHOOSE m \in {q[i] : i \in 1..Len(q)} : \A i \in 1..Len(q) : q[i] <= m
SeqMin(q) == CHOOSE m \in {q[i] : i \in 1..Len(q)} : \A i \in 1..Len(q) : m <= q[i]
RangeOfAxis(x) == CASE x[1] = "const" -> <<x[2], x[2]>> [] x[1] = "clip" -> <<0, x[2]>> [] OTHER -> <<>>
RangeContains(join, rng) == join = <<>> \/ (rng # <<>> /\ join[1] <= rng[1] /\ rng[2] <= join[2])
AbsJoin(a) == IF \E i \in 1..Len(a) : a[i][1] = "dyn" THEN <<>>
              ELSE <<SeqMin([i \in 1..Len(a) |-> RangeOfAxis(a[i])[1]]), SeqMax([i \in 1..Len(a) |-> RangeOfAxis(a[i])[2]])>>
ClipInto(join, v) == IF join = <<>> THEN v ELSE IF v > join[2] THEN join[2] ELSE IF v < join[1] THEN join[1] ELSE v

VARIABLES abs, abs2
vars == <<abs, abs2>>
Init == abs \in UNION {[1..d -> AbsAxis] : d \in 1..2} /\ abs2 \in UNION {[1..d -> AbsAxis] : d \in 1..2}
Next == UNCHANGED vars
Spec == Init /\ [][Next]_vars
ConcTranspose(s) == Reverse(s)
ConcFlatten(s) == <<Prod(s)>>
SoundTraits == \A s \in Gamma(abs) : Sound(TraitsOf(abs), s)
SoundTranspose == \A s \in Gamma(abs) : ConcTranspose(s) \in Gamma(AbsTranspose(abs)) \/ (\E i \in 1..Len(abs) : abs[i][1] = "dyn")
SoundFlatten == \A s \in Gamma(abs) : Sound(TraitsOf(AbsFlatten(abs)), ConcFlatten(s))
SoundReduce == \A s \in Gamma(abs) : \A ax \in 1..Len(abs) : \A keep \in BOOLEAN :
    Sound(TraitsOf(AbsReduce(abs, ax, keep)), IF keep THEN [s EXCEPT ![ax] = 1] ELSE DropAt(s, ax))
SoundBroadcast == Len(abs) = Len(abs2) => \A s \in Gamma(abs), t \in Gamma(abs2) :
    (\A i \in 1..Len(s) : s[i] = t[i] \/ s[i] = 1 \/ t[i] = 1) =>
        Sound(TraitsOf([i \in 1..Len(abs) |-> AbsBroadcastAxis(abs[i], abs2[i])]), [i \in 1..Len(s) |-> Max2(s[i], t[i])])
\* every extent of every instance survives the conversion to the joined type, and the join is the smallest such range
SoundJoin == /\ \A i \in 1..Len(abs) : RangeContains(AbsJoin(abs), RangeOfAxis(abs[i]))
             /\ \A s \in Gamma(abs) : \A i \in 1..Len(abs) : ClipInto(AbsJoin(abs), s[i]) = s[i]
SoundConcat == Len(abs) = Len(abs2) => \A ax \in 1..Len(abs) : \A s \in Gamma(abs), t \in Gamma(abs2) :
    (\A i \in 1..Len(s) : i = ax \/ s[i] = t[i]) =>
        LET r == [i \in 1..Len(s) |-> IF i = ax THEN s[i] + t[i] ELSE s[i]] IN
        /\ Sound(TraitsOf(AbsConcat(abs, abs2, ax)), r)
        /\ \A i \in 1..Len(r) : AbsConcat(abs, abs2, ax)[i][1] = "dyn" \/ r[i] <= AbsConcat(abs, abs2, ax)[i][2]
SoundTile == \A reps \in UNION {[1..k -> 1..2] : k \in 1..3} : \A s \in Gamma(abs) :
    LET n == Max2(Len(s), Len(reps))
        ps == [i \in 1..n |-> IF i <= n - Len(s) THEN 1 ELSE s[i - (n - Len(s))]]
        pr == [i \in 1..n |-> IF i <= n - Len(reps) THEN 1 ELSE reps[i - (n - Len(reps))]]
        r == [i \in 1..n |-> ps[i] * pr[i]]
    IN Sound(TraitsOf(AbsTile(abs, reps)), r) /\ Len(AbsTile(abs, reps)) = n
SoundTake == \A ax \in 1..Len(abs) : \A s \in Gamma(abs) : \A n \in 1..(MaxExt + 1) :
    Sound(TraitsOf(AbsTake(abs, ax)), [s EXCEPT ![ax] = n])

=================================================================================
