CONSTANTS MaxExt = 3
SPECIFICATION TraceSpec
POSTCONDITION TraceAccepted
CHECK_DEADLOCK FALSE
