CONSTANTS D = 2
INIT GInit
NEXT GNext
