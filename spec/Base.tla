---------------------------------- MODULE Base ----------------------------------
(* Reference arithmetic on shapes and indices (Layer R).  Shapes, strides and   *)
(* multi-indices are sequences of integers; flat offsets are 0-based.            *)
EXTENDS Naturals, Integers, Sequences, FiniteSets, TLC

RECURSIVE ProdFrom(_, _)
ProdFrom(s, i) == IF i > Len(s) THEN 1 ELSE s[i] * ProdFrom(s, i + 1)
Prod(s) == ProdFrom(s, 1)

RECURSIVE SumFrom(_, _)
SumFrom(s, i) == IF i > Len(s) THEN 0 ELSE s[i] + SumFrom(s, i + 1)
SumSeq(s) == SumFrom(s, 1)

Max2(a, b) == IF a >= b THEN a ELSE b
Min2(a, b) == IF a <= b THEN a ELSE b
Abs(a) == IF a < 0 THEN -a ELSE a

\* floor division and modulus for any sign of the dividend, positive divisor (Python semantics)
FloorDiv(a, b) == IF a >= 0 THEN a \div b ELSE -((-a + b - 1) \div b)
PyMod(a, b) == a - b * FloorDiv(a, b)
CeilDiv(a, b) == FloorDiv(a + b - 1, b)

\* C-order (row-major) strides: product of the trailing extents
Strides(shape) == [i \in 1..Len(shape) |-> ProdFrom(shape, i + 1)]
\* Fortran-order (column-major) strides: product of the leading extents
RECURSIVE ProdTo(_, _)
ProdTo(s, i) == IF i < 1 THEN 1 ELSE s[i] * ProdTo(s, i - 1)
ColStrides(shape) == [i \in 1..Len(shape) |-> ProdTo(shape, i - 1)]

Dot(a, b) == SumSeq([i \in 1..Len(a) |-> a[i] * b[i]])
Offset(idx, shape) == Dot(idx, Strides(shape))
OffsetS(idx, strides) == Dot(idx, strides)
Unravel(k, shape) == LET st == Strides(shape) IN [i \in 1..Len(shape) |-> (k \div st[i]) % shape[i]]

InBox(idx, shape) == Len(idx) = Len(shape) /\ \A i \in 1..Len(shape) : idx[i] >= 0 /\ idx[i] < shape[i]
\* all multi-indices of a shape in C order
AllIdx(shape) == [k \in 1..Prod(shape) |-> Unravel(k - 1, shape)]

\* lexicographic successor of a multi-index inside a shape (used by the order property)
RECURSIVE LexLess(_, _, _)
LexLess(a, b, i) == IF i > Len(a) THEN FALSE
                    ELSE IF a[i] < b[i] THEN TRUE ELSE IF a[i] > b[i] THEN FALSE ELSE LexLess(a, b, i + 1)

Reverse(s) == [i \in 1..Len(s) |-> s[Len(s) + 1 - i]]
Range0(n) == [i \in 1..n |-> i - 1]                 \* <<0,..,n-1>>
Const(n, v) == [i \in 1..n |-> v]

\* axis normalisation as NumPy: valid iff -d <= a < d
AxisOk(a, d) == a >= -d /\ a < d
NormAxis(a, d) == IF a < 0 THEN a + d ELSE a          \* 0-based
NormAxes(axes, d) == [i \in 1..Len(axes) |-> NormAxis(axes[i], d)]
AxesOk(axes, d) == \A i \in 1..Len(axes) : AxisOk(axes[i], d)
IsPerm(p, d) == Len(p) = d /\ {p[i] : i \in 1..d} = 0..(d - 1)
SeqToSet(s) == {s[i] : i \in 1..Len(s)}
NoDup(s) == Cardinality(SeqToSet(s)) = Len(s)

DropAt(s, i) == [j \in 1..(Len(s) - 1) |-> IF j < i THEN s[j] ELSE s[j + 1]]
PutAt(s, i, v) == [j \in 1..(Len(s) + 1) |-> IF j < i THEN s[j] ELSE IF j = i THEN v ELSE s[j - 1]]

\* all shapes of dimension dmin..dmax with extents in E
ShapesOf(dmin, dmax, E) == UNION {[1..d -> E] : d \in dmin..dmax}

\* array values: ok flag, shape and the elements in C order
Nothing == [ok |-> FALSE, shape |-> <<>>, elems |-> <<>>]
Mk(shape, F(_)) == [ok |-> TRUE, shape |-> shape, elems |-> [k \in 1..Prod(shape) |-> F(Unravel(k - 1, shape))]]
\* reading an operand: the source multi-index must lie inside the operand's shape (C02: the footprint of every reference
\* operator stays inside its operands; TLC evaluates this check wherever an operator reads an element)
At(v, idx) == IF InBox(idx, v.shape) THEN v.elems[Offset(idx, v.shape) + 1]
              ELSE Assert(FALSE, <<"source index outside the operand", idx, v.shape>>)
\* operand j of a trace: element at flat position p is 1000*j + p + 1
Leaf(shape, j) == [ok |-> TRUE, shape |-> shape, elems |-> [p \in 1..Prod(shape) |-> 1000 * j + p]]
=================================================================================
