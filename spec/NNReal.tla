---------------------------------- MODULE NNReal ----------------------------------
(* C17, real-valued routines in fixed point.  TLC has integers only, so results are  *)
(* expressed as round(value * S) with S = 1024 and compared with the implementation  *)
(* within a stated tolerance (TraceOps: exp.tol).  exp comes from a table of         *)
(* round(e^-k * 2^20) (mathematical constants), square roots from an integer square  *)
(* root with 8 fractional bits.  Operand values are small integers, so every         *)
(* intermediate stays below 2^31.  The definitions are PyTorch's:                    *)
(*   softmax(x, axis)_i = e^(x_i) / sum_j e^(x_j)    (j along axis), softmin = softmax(-x) *)
(*   batch_norm(x, mean, var, w, b)[n,c,...] = (x - mean[c]) / sqrt(var[c]) * w[c] + b[c] *)
(*   layer / instance / group norm = (x - mu_G) / sigma_G * w + b over the group G of x    *)
(*   bilinear(x1, x2, W, b)[.., o] = sum_ij x1[..,i] W[o,i,j] x2[..,j] + b[o]  (exact)      *)
(*   pairwise_distance = ||x1 - x2||_2 over the last axis, cosine_similarity = x1.x2/(|x1||x2|) *)
(* (the eps terms 1e-5 .. 1e-8 are below the tolerance for the data of the scope).   *)
EXTENDS NN

S == 1024
ExpTab == <<1048576, 385750, 141909, 52206, 19205, 7065, 2599, 956, 352, 129, 48, 18, 6, 2, 1>>     \* round(e^-k * 2^20), k = 0..14
ExpNeg(k) == IF k < Len(ExpTab) THEN ExpTab[k + 1] ELSE 0          \* e^-k * 2^20 for k >= 0
RECURSIVE ISqrtB(_, _, _)
ISqrtB(n, lo, hi) == IF lo >= hi THEN lo ELSE LET mid == (lo + hi + 1) \div 2 IN IF mid * mid <= n THEN ISqrtB(n, mid, hi) ELSE ISqrtB(n, lo, mid - 1)
ISqrt(n) == ISqrtB(n, 0, 46340)
Sqrt256(n) == ISqrt(n * 65536)          \* sqrt(n) * 256 for 0 <= n <= 32767
MaxOf(s) == CHOOSE v \in {s[q] : q \in 1..Len(s)} : \A q \in 1..Len(s) : v >= s[q]
Approx(r, tol) == IF r.ok THEN [tol |-> tol] @@ r ELSE r

\* the elements of x along axis ax (0-based) through index i
Lane(x, i, ax) == [g \in 1..x.shape[ax + 1] |-> At(x, [i EXCEPT ![ax + 1] = g - 1])]
Softmax(x, axis, sign) ==          \* sign = 1: softmax, -1: softmin
    LET d == Len(x.shape) IN
    IF ~AxisOk(axis, d) THEN Nothing
    ELSE LET ax == NormAxis(axis, d) IN
         Mk(x.shape, LAMBDA i : LET lane == [g \in 1..x.shape[ax + 1] |-> sign * Lane(x, i, ax)[g]]  m == MaxOf(lane)
                                    den == SumSeq([g \in 1..Len(lane) |-> ExpNeg(m - lane[g])])
                                IN (ExpNeg(m - sign * At(x, i)) * S) \div den)

\* normalisation of v inside a group with n elements, sum s1 and sum of squares s2, scaled by S: (v - mu) / sigma * w + b
NormVal(v, n, s1, s2, w, b) ==
    LET N == n * s2 - s1 * s1          \* n^2 * variance
        num == (n * v - s1) * w
    IN IF N = 0 THEN b * S
       ELSE LET R == Sqrt256(N)  q == IF num >= 0 THEN (num * S * 256) \div R ELSE -(((-num) * S * 256) \div R) IN q + b * S
\* group statistics over the index set G (sequence of multi-indices)
GroupNorm(x, G(_), W(_), B(_)) ==
    Mk(x.shape, LAMBDA i : LET g == G(i)  vals == [q \in 1..Len(g) |-> At(x, g[q])]
                               s1 == SumSeq(vals)  s2 == SumSeq([q \in 1..Len(vals) |-> vals[q] * vals[q]])
                           IN NormVal(At(x, i), Len(g), s1, s2, W(i), B(i)))
\* layer_norm: the group of i = all indices that agree with i on the leading axes (the trailing Len(wshape) axes vary)
LayerNorm(x, w, b) ==
    LET d == Len(x.shape)  k == Len(w.shape) IN
    IF k > d \/ SubSeq(x.shape, d - k + 1, d) # w.shape \/ b.shape # w.shape THEN Nothing
    ELSE LET tail == AllIdx(w.shape) IN
         GroupNorm(x, LAMBDA i : [q \in 1..Len(tail) |-> SubSeq(i, 1, d - k) \o tail[q]],
                      LAMBDA i : At(w, SubSeq(i, d - k + 1, d)), LAMBDA i : At(b, SubSeq(i, d - k + 1, d)))
\* instance_norm over the trailing nd axes, weight / bias per channel (axis d - nd - 1)
InstanceNorm(x, w, b, nd) ==
    LET d == Len(x.shape) IN
    IF d < nd + 1 \/ w.shape # <<x.shape[d - nd]>> \/ b.shape # w.shape THEN Nothing
    ELSE LET tail == AllIdx(SubSeq(x.shape, d - nd + 1, d)) IN
         GroupNorm(x, LAMBDA i : [q \in 1..Len(tail) |-> SubSeq(i, 1, d - nd) \o tail[q]],
                      LAMBDA i : w.elems[i[d - nd] + 1], LAMBDA i : b.elems[i[d - nd] + 1])
\* group_norm on (N, C, spatial...): groups of C / G consecutive channels with all spatial positions
GroupNormNC(x, G, w, b) ==
    LET d == Len(x.shape)  C == x.shape[2] IN
    IF d < 2 \/ G < 1 \/ C % G # 0 \/ w.shape # <<C>> \/ b.shape # <<C>> THEN Nothing
    ELSE LET cg == C \div G  sp == AllIdx(SubSeq(x.shape, 3, d)) IN
         GroupNorm(x, LAMBDA i : LET c0 == (i[2] \div cg) * cg IN
                                  [q \in 1..(cg * Len(sp)) |-> <<i[1], c0 + ((q - 1) \div Len(sp))>> \o sp[((q - 1) % Len(sp)) + 1]],
                      LAMBDA i : w.elems[i[2] + 1], LAMBDA i : b.elems[i[2] + 1])
\* batch_norm with given per-channel statistics; var holds perfect squares in the scope (sdev = exact square root)
BatchNorm(x, mean, var, w, b) ==
    LET d == Len(x.shape) IN
    IF d < 3 \/ mean.shape # <<x.shape[d - 2]>> \/ var.shape # mean.shape \/ w.shape # mean.shape \/ b.shape # mean.shape THEN Nothing
    ELSE Mk(x.shape, LAMBDA i : LET c == i[d - 2] + 1  sd == ISqrt(var.elems[c])  num == (At(x, i) - mean.elems[c]) * w.elems[c]
                               IN (IF num >= 0 THEN (num * S) \div sd ELSE -(((-num) * S) \div sd)) + b.elems[c] * S)
\* exact
Bilinear(x1, x2, w, biasOpt) ==
    LET d == Len(x1.shape) IN
    IF d < 1 \/ Len(x2.shape) # d \/ Len(w.shape) # 3 \/ SubSeq(x1.shape, 1, d - 1) # SubSeq(x2.shape, 1, d - 1)
       \/ w.shape[2] # x1.shape[d] \/ w.shape[3] # x2.shape[d] \/ (biasOpt # <<>> /\ biasOpt[1].shape # <<w.shape[1]>>) THEN Nothing
    ELSE Mk(SubSeq(x1.shape, 1, d - 1) \o <<w.shape[1]>>, LAMBDA i :
            (IF biasOpt = <<>> THEN 0 ELSE biasOpt[1].elems[i[d] + 1]) +
            Sum(w.shape[2], LAMBDA p : Sum(w.shape[3], LAMBDA q : At(x1, SubSeq(i, 1, d - 1) \o <<p>>) * At(w, <<i[d], p, q>>) * At(x2, SubSeq(i, 1, d - 1) \o <<q>>))))
PairwiseDistance(x1, x2, keepdims) ==
    LET d == Len(x1.shape) IN
    IF d < 1 \/ x1.shape # x2.shape THEN Nothing
    ELSE Mk(SubSeq(x1.shape, 1, d - 1) \o (IF keepdims THEN <<1>> ELSE <<>>), LAMBDA i :
            LET j == SubSeq(i, 1, d - 1)  ss == Sum(x1.shape[d], LAMBDA p : (At(x1, j \o <<p>>) - At(x2, j \o <<p>>)) * (At(x1, j \o <<p>>) - At(x2, j \o <<p>>)))
            IN Sqrt256(ss) * (S \div 256))
CosineSimilarity(x1, x2, axis) ==
    LET d == Len(x1.shape) IN
    IF d < 1 \/ x1.shape # x2.shape \/ ~AxisOk(axis, d) THEN Nothing
    ELSE LET ax == NormAxis(axis, d)
             keep == SelectSeq(Range0(d), LAMBDA m : m # ax)
         IN Mk([q \in 1..Len(keep) |-> x1.shape[keep[q] + 1]], LAMBDA i :
               LET full == [m \in 1..d |-> IF m - 1 = ax THEN 0 ELSE i[Cardinality({q \in 1..Len(keep) : keep[q] < m - 1}) + 1]]
                   a == Lane(x1, full, ax)  b == Lane(x2, full, ax)
                   dot == SumSeq([g \in 1..Len(a) |-> a[g] * b[g]])
                   na == SumSeq([g \in 1..Len(a) |-> a[g] * a[g]])  nb == SumSeq([g \in 1..Len(b) |-> b[g] * b[g]])
                   R == Sqrt256(na * nb)
               IN IF R = 0 THEN 0 ELSE IF dot >= 0 THEN (dot * S * 256) \div R ELSE -(((-dot) * S * 256) \div R))
=================================================================================
