CONSTANTS MaxLen = 3
SPECIFICATION Spec
INVARIANTS LawAssociative LawArity LawSurplus LawCombinators
CHECK_DEADLOCK FALSE
