------------------------------- MODULE Containers -------------------------------
(* C19: the sequence containers (utl::vector, utl::static_vector, small_vector,  *)
(* utl::array) as a state machine over 1..NObj objects.                           *)
(*   ref  - Layer R: what the corresponding std:: container would hold            *)
(*          (static_vector refuses beyond its capacity and stays unchanged);      *)
(*   hid  - Layer I: hidden state of the implementation that makes histories      *)
(*          matter (allocated capacity of vector, static/dynamic mode of          *)
(*          small_vector) - it steers which code path the next action takes;      *)
(*   hist - ghost: the operations so far (hidden from the fingerprint by VIEW).   *)
EXTENDS Naturals, Integers, Sequences, FiniteSets, TLC

CONSTANTS Kind,      \* "vector" | "static" | "small" | "array"
          Cap,       \* capacity of static_vector / threshold of small_vector / length of array
          Vals,      \* element values written
          NObj,
          MaxHist

VARIABLES ref, hid, hist
vars == <<ref, hid, hist>>

Obj == 1..NObj
Dead == [live |-> FALSE, elems |-> <<>>]
NoHid == [cap |-> 0, mode |-> "none"]
Zeros(n) == [i \in 1..n |-> 0]
Take(s, n) == IF n <= Len(s) THEN SubSeq(s, 1, n) ELSE s \o Zeros(n - Len(s))
Max(a, b) == IF a >= b THEN a ELSE b

Init == /\ ref = [o \in Obj |-> Dead]
        /\ hid = [o \in Obj |-> NoHid]
        /\ hist = <<>>

\* ---------------------------------------------------------------- Layer R: std semantics of one action
\* returns <<new contents of object o, refused flag>>
Refuses(n) == Kind = "static" /\ n > Cap
RefDo(a, r) ==
    CASE a.op = "ctor"    -> <<IF Kind = "array" THEN Zeros(Cap) ELSE <<>>, FALSE>>
      [] a.op = "ctor_n"  -> IF Refuses(a.n) THEN <<<<>>, TRUE>> ELSE <<Zeros(a.n), FALSE>>
      [] a.op = "ctor_vv" -> <<<<a.v, a.w>>, FALSE>>
      [] a.op = "copy"    -> <<r[a.p].elems, FALSE>>
      [] a.op = "assign"  -> <<r[a.p].elems, FALSE>>
      [] a.op = "push"    -> IF Refuses(Len(r[a.o].elems) + 1) THEN <<r[a.o].elems, TRUE>> ELSE <<Append(r[a.o].elems, a.v), FALSE>>
      [] a.op = "resize"  -> IF Refuses(a.n) THEN <<r[a.o].elems, TRUE>> ELSE <<Take(r[a.o].elems, a.n), FALSE>>
      [] a.op = "write"   -> <<[r[a.o].elems EXCEPT ![a.i + 1] = a.v], FALSE>>
      [] a.op = "dtor"    -> <<<<>>, FALSE>>

\* ---------------------------------------------------------------- Layer I: hidden state transfer
HidDo(a, r, h, newlen) ==
    CASE Kind = "vector" ->
            [h[a.o] EXCEPT !.cap =
                CASE a.op = "ctor" -> 4
                  [] a.op = "ctor_n" -> a.n
                  [] a.op \in {"ctor_vv", "copy"} -> Max(4, newlen)
                  [] a.op \in {"assign", "resize", "push"} -> Max(h[a.o].cap, newlen)
                  [] a.op = "dtor" -> 0
                  [] OTHER -> h[a.o].cap]
      [] Kind = "small" ->
            [h[a.o] EXCEPT !.mode =
                CASE a.op = "ctor" -> "static"
                  [] a.op = "ctor_n" -> IF a.n < Cap THEN "static" ELSE "dynamic"
                  [] a.op = "ctor_vv" -> "static"
                  [] a.op \in {"copy", "assign"} -> h[a.p].mode
                  [] a.op \in {"resize", "push"} -> IF h[a.o].mode = "static" /\ newlen <= Cap THEN "static" ELSE "dynamic"
                  [] a.op = "dtor" -> "none"
                  [] OTHER -> h[a.o].mode]
      [] OTHER -> h[a.o]

\* ---------------------------------------------------------------- the alphabet
Sizes == 0..(Cap + 2)
Enabled(a) ==
    CASE a.op \in {"ctor", "ctor_n", "ctor_vv"} -> ~ref[a.o].live /\ (Kind = "array" => a.op = "ctor")
      [] a.op = "copy"   -> ~ref[a.o].live /\ ref[a.p].live /\ a.o # a.p
      [] a.op = "assign" -> ref[a.o].live /\ ref[a.p].live
      [] a.op \in {"push", "resize"} -> ref[a.o].live /\ Kind # "array"
      [] a.op = "write"  -> ref[a.o].live /\ a.i < Len(ref[a.o].elems)
      [] a.op = "dtor"   -> ref[a.o].live
Actions ==
    {[op |-> "ctor", o |-> o] : o \in Obj} \cup {[op |-> "ctor_n", o |-> o, n |-> n] : o \in Obj, n \in Sizes}
    \cup {[op |-> "ctor_vv", o |-> o, v |-> v, w |-> w] : o \in Obj, v \in Vals, w \in Vals}
    \cup {[op |-> k, o |-> o, p |-> p] : k \in {"copy", "assign"}, o \in Obj, p \in Obj}
    \cup {[op |-> "push", o |-> o, v |-> v] : o \in Obj, v \in Vals}
    \cup {[op |-> "resize", o |-> o, n |-> n] : o \in Obj, n \in Sizes}
    \cup {[op |-> "write", o |-> o, i |-> i, v |-> v] : o \in Obj, i \in 0..(Cap + 1), v \in Vals}
    \cup {[op |-> "dtor", o |-> o] : o \in Obj}

Do(a) == /\ Enabled(a)
         /\ LET res == RefDo(a, ref) IN
            /\ ref' = [ref EXCEPT ![a.o] = IF a.op = "dtor" THEN Dead ELSE [live |-> TRUE, elems |-> res[1]]]
            /\ hid' = [hid EXCEPT ![a.o] = HidDo(a, ref, hid, Len(res[1]))]
         /\ hist' = Append(hist, a)
Next == Len(hist) < MaxHist /\ \E a \in Actions : Do(a)
Spec == Init /\ [][Next]_vars

\* what distinguishes states for exploration: sizes, liveness and hidden state (contents are representative)
View == <<[o \in Obj |-> <<ref[o].live, Len(ref[o].elems)>>], hid>>

\* ---------------------------------------------------------------- invariants of the design
TypeOK == \A o \in Obj : ref[o].live \in BOOLEAN /\ (~ref[o].live => ref[o].elems = <<>>)
CapacityRespected == Kind = "static" => \A o \in Obj : Len(ref[o].elems) <= Cap
HiddenCovers == Kind = "vector" => \A o \in Obj : ref[o].live => hid[o].cap >= Len(ref[o].elems)
ModeConsistent == Kind = "small" => \A o \in Obj : ref[o].live => (hid[o].mode = "static" => Len(ref[o].elems) <= Cap)
\* copies are independent: an action on o never changes another object (action property)
Independent == [][\A o \in Obj : (hist' # hist /\ hist'[Len(hist')].o # o) => ref'[o] = ref[o]]_vars
SelfAssignHarmless == [][(hist' # hist /\ hist'[Len(hist')].op = "assign" /\ hist'[Len(hist')].o = hist'[Len(hist')].p) => ref' = ref]_vars
=================================================================================
