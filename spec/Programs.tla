-------------------------------- MODULE Programs --------------------------------
(* C10/C15: view programs.  A program is a chain of operations applied to a leaf *)
(* array; its meaning is the composition of the reference semantics (Denote).    *)
(* TLC enumerates the programs of a bounded alphabet whose arguments are chosen  *)
(* from the shape of the intermediate result, including a few invalid steps      *)
(* (Nothing must propagate).                                                      *)
EXTENDS Denote, Json
CONSTANTS Leaves, MaxDepth, MaxSize
VARIABLES leaf, prog, val
vars == <<leaf, prog, val>>

Step(op, args) == [op |-> op, args |-> args, shapes |-> <<<<>>>>]
Step2(op, args, s2) == [op |-> op, args |-> args, shapes |-> <<<<>>, s2>>]
NoArg == [none |-> TRUE]
Choices(s) ==      \* steps offered for an intermediate result of shape s
    LET d == Len(s) IN
    {Step("transpose", [axes |-> <<>>])}
    \cup (IF d >= 2 THEN {Step("transpose", [axes |-> <<[i \in 1..d |-> IF i = d THEN 0 ELSE i]>>]), Step("transpose", [axes |-> <<[i \in 1..d |-> -i]>>])} ELSE {})
    \cup {Step("flip", [axis |-> <<<<IF x % 2 = 0 THEN x ELSE x - d>>>>, int |-> TRUE]) : x \in 0..(d - 1)}
    \cup {Step("reshape", [dst |-> <<Prod(s)>>]), Step("reshape", [dst |-> <<-1, s[d]>>]), Step("reshape", [dst |-> <<Prod(s) + 1>>])}
    \cup (IF d >= 2 THEN {Step("reshape", [dst |-> <<s[1] * s[2]>> \o SubSeq(s, 3, d)])} ELSE {})
    \cup (IF 2 * Prod(s) <= MaxSize THEN {Step("tile", [reps |-> <<2>>]), Step("tile", [reps |-> <<2, 1>>])} ELSE {})
    \cup (IF d >= 2 THEN {Step("reduce_mix", [axis |-> <<<<x>>>>, axis_int |-> TRUE, initial |-> <<>>, keepdims |-> "F"]) : x \in {0, -1}} ELSE {})
    \cup {Step2("mix", NoArg, s), Step2("mix", NoArg, <<s[d]>>), Step2("mix", NoArg, <<1>>), Step2("mix", NoArg, <<s[d] + 1>>)}
    \cup {Step("roll", [shift |-> <<1>>, shift_int |-> TRUE, axis |-> <<<<0>>>>, axis_int |-> TRUE]), Step("roll", [shift |-> <<-1>>, shift_int |-> TRUE, axis |-> <<<<d - 1>>>>, axis_int |-> TRUE])}
    \cup {Step("expand_dims", [axis |-> <<0>>, int |-> TRUE]), Step("expand_dims", [axis |-> <<-1>>, int |-> TRUE])}
    \cup (IF Prod([i \in 1..d |-> s[i] + 1]) <= MaxSize THEN {Step("pad", [widths |-> [i \in 1..(2 * d) |-> IF i <= d THEN 1 ELSE 0], value |-> -7])} ELSE {})

Init == leaf \in Leaves /\ prog = <<>> /\ val = Leaf(leaf, 0)
Extend(st) == /\ val.ok /\ Len(prog) < MaxDepth
              /\ prog' = Append(prog, st)
              /\ val' = ExpectWith(st, val)
              /\ UNCHANGED leaf
Next == val.ok /\ \E st \in Choices(val.shape) : Extend(st)
Spec == Init /\ [][Next]_vars

\* design-level invariants of the program machine
NothingIsFinal == ~val.ok => (val.shape = <<>> /\ val.elems = <<>>)
Wellformed == val.ok => Len(val.elems) = Prod(val.shape) /\ Prod(val.shape) <= 4 * MaxSize
\* fused = staged: the meaning of a program is the meaning of its suffix applied to the meaning of its prefix
FusedIsStaged == \A k \in 0..Len(prog) : RunProg(prog, 1, Leaf(leaf, 0)) = RunProg(SubSeq(prog, k + 1, Len(prog)), 1, RunProg(SubSeq(prog, 1, k), 1, Leaf(leaf, 0)))
LeavesQuick == {<<2, 3>>, <<4>>, <<2, 1, 2>>}
LeavesThorough == {<<2, 3>>, <<4>>, <<2, 1, 2>>, <<3, 2, 2>>}
Emit == prog' # prog => PrintT(ToJson([leaf |-> leaf, prog |-> prog']))
=================================================================================
