CONSTANTS D = 3 E = 3 D3 = 2 E3 = 3
INIT GInit
NEXT GNext
