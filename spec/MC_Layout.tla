------------------------------- MODULE MC_Layout -------------------------------
EXTENDS Layout
MCShapes == ShapesOf(1, 4, 1..4) \cup ShapesOf(5, 5, 1..3) \cup ShapesOf(6, 6, 1..2)
MCShapesQuick == ShapesOf(1, 4, 1..3) \cup ShapesOf(5, 5, 1..2)
=================================================================================
