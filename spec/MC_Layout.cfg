CONSTANT Shapes <- MCShapes
SPECIFICATION Spec
INVARIANTS StridesAreSuffixProducts InShape RoundTrip Successor ExactlyOnce LayoutsAgree ColStridesMirror
CHECK_DEADLOCK FALSE
