------------------------------- MODULE TraceOps -------------------------------
(* Trace validation of operation events: every event logged by a driver holds  *)
(* the operation name, operand shapes (operand j holds 1000*j + p + 1 at flat  *)
(* position p), the arguments and the observed result {ok, crash, shape, elems}.*)
(* The event is accepted iff the result is the one the reference semantics     *)
(* (Denote) allows.  Rejected events are accumulated with the expected value.  *)
EXTENDS Denote, Json, IOUtils, TLC

TraceLog == ndJsonDeserialize(IOEnv.TRACE)
VARIABLES l, bad
tvars == <<l, bad>>

Ev == TraceLog[l]

Good(e, exp) == /\ e.res.crash = ""
                /\ e.res.ok = exp.ok
                /\ exp.ok => /\ e.res.shape = exp.shape
                             /\ IF "tol" \in DOMAIN exp      \* real values travel as scaled integers and agree within the stated tolerance
                                THEN /\ Len(e.res.elems) = Len(exp.elems)
                                     /\ \A q \in 1..Len(exp.elems) : e.res.elems[q] - exp.elems[q] <= exp.tol /\ exp.elems[q] - e.res.elems[q] <= exp.tol
                                ELSE e.res.elems = exp.elems
                /\ (exp.ok /\ "dtype" \in DOMAIN exp) => e.res.dtype = exp.dtype
                \* where the driver also logs the element count the object reports (size()): it is the product of the shape
                /\ (exp.ok /\ "size" \in DOMAIN e.res) => e.res.size = Prod(exp.shape)
                /\ (exp.ok /\ "sizes" \in DOMAIN e.res) => /\ Len(e.res.sizes) = Len(exp.shape)
                                                           /\ \A j \in 1..Len(exp.shape) : e.res.sizes[j] = Prod(exp.shape[j])

TInit == l = 1 /\ bad = <<>>
TOp == /\ l <= Len(TraceLog)
       /\ IF "op" \notin DOMAIN Ev      \* a case that emits several events died: the crash event carries the case only
          THEN bad' = Append(bad, [l |-> l, id |-> Ev.id, why |-> "crash", expect |-> [ok |-> TRUE, shape |-> <<>>, elems |-> <<>>]])
          ELSE LET exp == Expect(Ev)
               IN bad' = IF Good(Ev, exp) THEN bad ELSE Append(bad, [l |-> l, id |-> Ev.id, why |-> "result", expect |-> exp])
       /\ l' = l + 1
TFinish == /\ l = Len(TraceLog) + 1
           /\ ndJsonSerialize(IOEnv.OUT, bad)
           /\ l' = l + 1
           /\ UNCHANGED bad
TNext == TOp \/ TFinish
TraceSpec == TInit /\ [][TNext]_tvars
TraceAccepted == TLCGet("stats").diameter = Len(TraceLog) + 2
=================================================================================
