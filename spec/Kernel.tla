---------------------------------- MODULE Kernel ----------------------------------
(* C13: a 1-d launch of the per-thread kernel body.  Every thread (block b, lane t) *)
(* computes gid = b * BlockSize + t and writes out[gid] iff gid < Size; threads may *)
(* run in any order and a thread may run more than once.  TLC explores every        *)
(* interleaving of small geometries; simulated complete schedules are exported and  *)
(* replayed thread by thread on the real per-thread body.                            *)
EXTENDS Naturals, Sequences, FiniteSets, TLC, Json

CONSTANTS Sizes, BlockSizes, MaxDup, MaxThreads

VARIABLES size, bs, grid, out, runs, hist
vars == <<size, bs, grid, out, runs, hist>>

Threads == {<<b, t>> : b \in 0..(grid - 1), t \in 0..(bs - 1)}
Gid(th) == th[1] * bs + th[2]
\* CUDA/HIP host code: blocks of 32 lanes, ceil(size / 32) * 32 blocks (over-provisioned); any geometry covering the output is allowed
Covers == bs * grid >= size

Init == /\ size \in Sizes /\ bs \in BlockSizes
        /\ grid \in {g \in 1..(2 * MaxThreads) : bs * g >= size /\ bs * g <= 2 * size + bs /\ bs * g <= MaxThreads}
        /\ out = [i \in 0..(size - 1) |-> FALSE]
        /\ runs = [th \in {} |-> 0]
        /\ hist = <<>>
Count(th) == IF th \in DOMAIN runs THEN runs[th] ELSE 0
AllRan == \A th \in Threads : Count(th) >= 1
RunThread(th) == /\ Count(th) < MaxDup /\ ~AllRan
                 /\ out' = IF Gid(th) < size THEN [out EXCEPT ![Gid(th)] = TRUE] ELSE out
                 /\ runs' = [x \in (DOMAIN runs) \cup {th} |-> IF x = th THEN Count(th) + 1 ELSE runs[x]]
                 /\ hist' = Append(hist, th)
                 /\ UNCHANGED <<size, bs, grid>>
Next == \E th \in Threads : RunThread(th)
Spec == Init /\ [][Next]_vars

\* properties of the design
CoverInv == Covers
GuardedWrite == [][\A i \in 0..(size - 1) : out'[i] # out[i] => (hist' # hist /\ Gid(hist'[Len(hist')]) = i)]_vars
BeyondSizeWritesNothing == [][(hist' # hist /\ Gid(hist'[Len(hist')]) >= size) => out' = out]_vars
CompleteWhenAllRan == AllRan => \A i \in 0..(size - 1) : out[i]
\* the host launch arithmetic of cuda/hip contexts covers every size
LaunchArithmetic == \A n \in 1..200 : (((n + 31) \div 32) * 32) * 32 >= n
View == <<size, bs, grid, out, runs>>
Emit == (hist' # hist /\ AllRan') => PrintT(ToJson([size |-> size, bs |-> bs, grid |-> grid, sched |-> hist']))
=================================================================================
