--------------------------------- MODULE MC_NN ---------------------------------
(* Laws of the convolution / pooling reference, checked by TLC over a parameter  *)
(* space: output-size formulas against the defining window enumeration.          *)
EXTENDS NN, TLC
CONSTANTS NMax
VARIABLES n, k, s, p, d
vars == <<n, k, s, p, d>>
Init == n \in 1..NMax /\ k \in 1..3 /\ s \in 1..3 /\ p \in 0..2 /\ d \in 1..2
Next == UNCHANGED vars
Spec == Init /\ [][Next]_vars
\* the number of window positions that fit: positions y with 0 <= y*s - p + (k-1)*d - ... counted directly
Positions == {y \in 0..(n + 2 * p) : y * s + d * (k - 1) <= n + 2 * p - 1}
LawConvOutCountsWindows == ConvOut(n, k, s, p, d) = Cardinality(Positions)
LawPoolFloor == k <= n => PoolOut(n, k, s, FALSE) = Cardinality({y \in 0..n : y * s + k <= n})
LawPoolCeil == k <= n => PoolOut(n, k, s, TRUE) = Cardinality({y \in 0..n : y * s < n /\ (y = 0 \/ (y - 1) * s + k < n)})
\* a 1x1 convolution with weight 1 is the identity; with stride s it subsamples
LawConvIdentity == LET x == [ok |-> TRUE, shape |-> <<1, 1, n>>, elems |-> [q \in 1..n |-> q]]
                       w == [ok |-> TRUE, shape |-> <<1, 1, 1>>, elems |-> <<1>>]
                       r == ConvND(1, x, w, <<>>, <<s>>, <<0>>, <<1>>, 1)
                   IN r.ok /\ r.elems = [q \in 1..(((n - 1) \div s) + 1) |-> (q - 1) * s + 1]
LawMaxPoolCoversAll == k <= n => LET x == [ok |-> TRUE, shape |-> <<1, n>>, elems |-> [q \in 1..n |-> q]]
                                     r == Pool2d("max", x, <<1, k>>, <<1, s>>, TRUE)
                                 IN r.ok /\ (s <= k => r.elems[Len(r.elems)] = n)
=================================================================================
