CONSTANTS KindDesc <- Desc_fixbuf_bounddim Shapes <- ShapesThorough MaxHist = 5
SPECIFICATION Spec
VIEW View
ACTION_CONSTRAINT Emit
CHECK_DEADLOCK FALSE
