CONSTANTS KindDesc <- Desc_dyn_dyn Shapes <- ShapesThorough MaxHist = 5
SPECIFICATION Spec
VIEW View
INVARIANT Inv
PROPERTIES RefusedChangesNothing WriteTouchesOne CastChangesNothing
CHECK_DEADLOCK FALSE
