CONSTANTS D = 4 E = 4
SPECIFICATION Spec
INVARIANTS LawTransposeIsPermutation LawTransposeDefaultReverses LawTransposeNegativeAxes LawMoveAxisIsNumpy LawSwapAxes LawFlipInvolution LawFlipAllReversesBuffer LawReshapeKeepsCOrder LawReshapeRejects LawFlattenIsReshape LawExpandSqueeze LawAtLeast
CHECK_DEADLOCK FALSE
