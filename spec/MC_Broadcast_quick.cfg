CONSTANTS D = 3 E = 3 D3 = 2 E3 = 3
SPECIFICATION Spec
INVARIANTS LawCriterion LawCommutative LawIdempotent LawScalarNeutral LawResultIsMax LawBroadcastToResult LawBroadcastToElements LawImplRefinesRef LawAssociative
CHECK_DEADLOCK FALSE
