------------------------------ MODULE MC_NdArray ------------------------------
(* Kind descriptors of the array classes exercised by C20 and the scope of shapes. *)
EXTENDS GenNdArray, IOUtils
Desc_dyn_dyn == [dim |-> <<"any", 0>>, size |-> <<"any", 0>>, const |-> <<>>, clip |-> <<>>, init |-> <<2, 3>>]
Desc_fixbuf_dyn == [dim |-> <<"any", 0>>, size |-> <<"fixed", 6>>, const |-> <<>>, clip |-> <<>>, init |-> <<2, 3>>]
Desc_boundbuf_dyn == [dim |-> <<"any", 0>>, size |-> <<"bounded", 6>>, const |-> <<>>, clip |-> <<>>, init |-> <<2, 3>>]
Desc_dyn_fixdim == [dim |-> <<"fixed", 2>>, size |-> <<"any", 0>>, const |-> <<>>, clip |-> <<>>, init |-> <<2, 3>>]
Desc_dyn_bounddim == [dim |-> <<"bounded", 2>>, size |-> <<"any", 0>>, const |-> <<>>, clip |-> <<>>, init |-> <<2, 3>>]
Desc_fixbuf_fixdim == [dim |-> <<"fixed", 2>>, size |-> <<"fixed", 6>>, const |-> <<>>, clip |-> <<>>, init |-> <<2, 3>>]
Desc_boundbuf_fixdim == [dim |-> <<"fixed", 2>>, size |-> <<"bounded", 6>>, const |-> <<>>, clip |-> <<>>, init |-> <<2, 3>>]
Desc_boundbuf_bounddim == [dim |-> <<"bounded", 2>>, size |-> <<"bounded", 6>>, const |-> <<>>, clip |-> <<>>, init |-> <<2, 3>>]
Desc_fixbuf_bounddim == [dim |-> <<"bounded", 2>>, size |-> <<"fixed", 6>>, const |-> <<>>, clip |-> <<>>, init |-> <<2, 3>>]
Desc_fixbuf_const == [dim |-> <<"fixed", 2>>, size |-> <<"fixed", 6>>, const |-> <<<<2, 3>>>>, clip |-> <<>>, init |-> <<2, 3>>]
Desc_boundbuf_clipped == [dim |-> <<"fixed", 2>>, size |-> <<"bounded", 6>>, const |-> <<>>, clip |-> <<<<3, 3>>>>, init |-> <<2, 3>>]
Desc_dyn_clipped == [dim |-> <<"fixed", 2>>, size |-> <<"any", 0>>, const |-> <<>>, clip |-> <<<<3, 3>>>>, init |-> <<2, 3>>]
\* the legacy classes: fixed_ndarray<T,2,3> (no resize member), hybrid_ndarray<T,6,2> (fixed dimension, bounded size), dynamic_ndarray<T>
Desc_legacy_fixed == Desc_fixbuf_const
Desc_legacy_hybrid == Desc_boundbuf_fixdim
Desc_legacy_dynamic == Desc_dyn_dyn
ShapesQuick == {<<6>>, <<2, 3>>, <<3, 2>>, <<1, 6>>, <<2, 2>>, <<3, 3>>, <<4, 2>>, <<2, 3, 1>>, <<1, 2, 3>>, <<2, 2, 2>>}
ShapesThorough == ShapesOf(1, 3, 1..3) \cup {<<6>>, <<1, 6>>, <<6, 1>>, <<4, 2>>, <<2, 4>>, <<4, 4>>}
=================================================================================
