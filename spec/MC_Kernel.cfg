CONSTANTS Sizes = {1, 2, 3, 4} BlockSizes = {1, 2, 3} MaxDup = 2 MaxThreads = 6
SPECIFICATION Spec
VIEW View
INVARIANTS CoverInv CompleteWhenAllRan LaunchArithmetic
PROPERTIES GuardedWrite BeyondSizeWritesNothing
CHECK_DEADLOCK FALSE
