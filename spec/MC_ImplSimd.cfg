CONSTANTS Lanes = {2, 4, 8, 16} MaxMul = 4
SPECIFICATION Spec
INVARIANTS InBuffer ExactlyOnce TailStartsWherePackedStopped
CHECK_DEADLOCK FALSE
