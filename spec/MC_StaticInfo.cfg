CONSTANTS MaxExt = 3
SPECIFICATION Spec
INVARIANTS SoundTraits SoundTranspose SoundFlatten SoundReduce SoundBroadcast
CHECK_DEADLOCK FALSE
