CONSTANTS MaxExt = 3
SPECIFICATION Spec
INVARIANTS SoundTraits SoundTranspose SoundFlatten SoundReduce SoundBroadcast SoundJoin SoundConcat SoundTile SoundTake
CHECK_DEADLOCK FALSE
