CONSTANTS MaxExt = 3
SPECIFICATION Spec
INVARIANTS SoundTraits SoundTranspose SoundFlatten SoundReduce SoundBroadcast SoundJoin
CHECK_DEADLOCK FALSE
