---------------------------------- MODULE Linalg ----------------------------------
(* C16 reference semantics: linear-algebra routines as sums of products over       *)
(* exactly the contracted index ranges (NumPy shapes).  Integer data, exact.       *)
EXTENDS Broadcast

ArrL(shape, elems) == [ok |-> TRUE, shape |-> shape, elems |-> elems]
Sum(n, F(_)) == SumSeq([k \in 1..n |-> F(k - 1)])
Drop(s, n) == SubSeq(s, n + 1, Len(s))
First(s, n) == SubSeq(s, 1, n)

\* matmul with 1-d promotion and broadcasting of the batch dimensions
Matmul(a, b) ==
    LET da == Len(a.shape)  db == Len(b.shape) IN
    IF da = 0 \/ db = 0 THEN Nothing
    ELSE LET sa == IF da = 1 THEN <<1>> \o a.shape ELSE a.shape
             sb == IF db = 1 THEN b.shape \o <<1>> ELSE b.shape
             A == ArrL(sa, a.elems)  B == ArrL(sb, b.elems)
             na == Len(sa)  nb == Len(sb)
             K == sa[na]
             batch == BShape(First(sa, na - 2), First(sb, nb - 2))
         IN IF sb[nb - 1] # K \/ ~batch[1] THEN Nothing
            ELSE LET bs == batch[2]  nbt == Len(bs)
                     full == bs \o <<sa[na - 1], sb[nb]>>
                     ia(i) == BroadcastToIdx(First(sa, na - 2), bs, First(i, nbt))
                     ib(i) == BroadcastToIdx(First(sb, nb - 2), bs, First(i, nbt))
                     r == Mk(full, LAMBDA i : Sum(K, LAMBDA k : At(A, ia(i) \o <<i[nbt + 1], k>>) * At(B, ib(i) \o <<k, i[nbt + 2]>>)))
                     \* remove the promoted axes
                     osh == IF da = 1 /\ db = 1 THEN bs
                            ELSE IF da = 1 THEN bs \o <<sb[nb]>>
                            ELSE IF db = 1 THEN bs \o <<sa[na - 1]>> ELSE full
                 IN ArrL(osh, r.elems)

\* inner: contraction over the last axes
Inner(a, b) ==
    LET da == Len(a.shape)  db == Len(b.shape) IN
    IF da = 0 \/ db = 0 THEN Nothing
    ELSE IF a.shape[da] # b.shape[db] THEN Nothing
    ELSE Mk(First(a.shape, da - 1) \o First(b.shape, db - 1),
            LAMBDA i : Sum(a.shape[da], LAMBDA k : At(a, First(i, da - 1) \o <<k>>) * At(b, Drop(i, da - 1) \o <<k>>)))
\* dot: last axis of a with the second-to-last axis of b (last if b is 1-d)
DotProduct(a, b) ==
    LET da == Len(a.shape)  db == Len(b.shape) IN
    IF da = 0 \/ db = 0 THEN Nothing
    ELSE IF db = 1 THEN Inner(a, b)
    ELSE IF a.shape[da] # b.shape[db - 1] THEN Nothing
    ELSE Mk(First(a.shape, da - 1) \o First(b.shape, db - 2) \o <<b.shape[db]>>,
            LAMBDA i : LET j == Drop(i, da - 1) IN
                       Sum(a.shape[da], LAMBDA k : At(a, First(i, da - 1) \o <<k>>) * At(b, First(j, db - 2) \o <<k, j[db - 1]>>)))
OuterProduct(a, b) == Mk(<<Prod(a.shape), Prod(b.shape)>>, LAMBDA i : a.elems[i[1] + 1] * b.elems[i[2] + 1])
\* vecdot: sum over the last axis of the broadcast operands
Vecdot(a, b) ==
    LET r == BShape(a.shape, b.shape) IN
    IF ~r[1] \/ Len(r[2]) = 0 THEN Nothing
    ELSE LET s == r[2]  n == Len(s)
             A == BroadcastTo(a, s)  B == BroadcastTo(b, s)
         IN Mk(First(s, n - 1), LAMBDA i : Sum(s[n], LAMBDA k : At(A, i \o <<k>>) * At(B, i \o <<k>>)))
\* tensordot with explicit axis lists (0-based, normalised) ; integer axes n = last n of a with first n of b
TensordotAxes(a, b, axa, axb) ==
    LET da == Len(a.shape)  db == Len(b.shape)  n == Len(axa) IN
    IF n # Len(axb) \/ (\E q \in 1..n : a.shape[axa[q] + 1] # b.shape[axb[q] + 1]) THEN Nothing
    ELSE LET fa == SelectSeq(Range0(da), LAMBDA m : \A q \in 1..n : axa[q] # m)
             fb == SelectSeq(Range0(db), LAMBDA m : \A q \in 1..n : axb[q] # m)
             cshape == [q \in 1..n |-> a.shape[axa[q] + 1]]
             cidx == IF n = 0 THEN <<<<>>>> ELSE AllIdx(cshape)
             osh == [q \in 1..Len(fa) |-> a.shape[fa[q] + 1]] \o [q \in 1..Len(fb) |-> b.shape[fb[q] + 1]]
             ia(i, c) == [m \in 1..da |-> IF \E q \in 1..n : axa[q] = m - 1 THEN c[CHOOSE q \in 1..n : axa[q] = m - 1] ELSE i[CHOOSE q \in 1..Len(fa) : fa[q] = m - 1]]
             ib(i, c) == [m \in 1..db |-> IF \E q \in 1..n : axb[q] = m - 1 THEN c[CHOOSE q \in 1..n : axb[q] = m - 1] ELSE i[Len(fa) + (CHOOSE q \in 1..Len(fb) : fb[q] = m - 1)]]
         IN Mk(osh, LAMBDA i : SumSeq([g \in 1..Len(cidx) |-> At(a, ia(i, cidx[g])) * At(b, ib(i, cidx[g]))]))
Tensordot(a, b, n) ==
    LET da == Len(a.shape)  db == Len(b.shape) IN
    IF n > da \/ n > db THEN Nothing
    ELSE TensordotAxes(a, b, [q \in 1..n |-> da - n + q - 1], [q \in 1..n |-> q - 1])
Kron(a, b) ==
    LET n == Max2(Len(a.shape), Len(b.shape))
        sa == Const(n - Len(a.shape), 1) \o a.shape  sb == Const(n - Len(b.shape), 1) \o b.shape
        A == ArrL(sa, a.elems)  B == ArrL(sb, b.elems)
    IN Mk([m \in 1..n |-> sa[m] * sb[m]], LAMBDA i : At(A, [m \in 1..n |-> i[m] \div sb[m]]) * At(B, [m \in 1..n |-> i[m] % sb[m]]))
=================================================================================
