------------------------------ MODULE StackMachine ------------------------------
(* The stack machine behind functor composition (C14): a composition is a list    *)
(* <<f_n, ..., f_1>>; applying it to an operand stack applies f_1 to the first    *)
(* arity(f_1) operands, pushes its results in front of the remaining operands     *)
(* and continues with f_2.  Combinators permute / duplicate the stack.  Values are *)
(* abstract terms; Interp gives them the numeric meaning of the functors the       *)
(* drivers use (u1 = negative, u2 = square, b = subtract, t = where).              *)
EXTENDS Naturals, Integers, Sequences, FiniteSets, TLC

Sig == {[name |-> "u1", ar |-> 1, out |-> 1], [name |-> "u2", ar |-> 1, out |-> 1], [name |-> "b", ar |-> 2, out |-> 1], [name |-> "t", ar |-> 3, out |-> 1],
        [name |-> "swap", ar |-> 2, out |-> 2], [name |-> "dup", ar |-> 1, out |-> 2], [name |-> "dig2", ar |-> 3, out |-> 3], [name |-> "bury2", ar |-> 3, out |-> 3]}
L(n) == [f |-> n, in |-> <<>>]      \* leaf term
Stuck == <<L("stuck")>>

\* one functor applied to the front of the stack
ApplyOne(f, st) ==
    LET args == SubSeq(st, 1, f.ar)  rest == SubSeq(st, f.ar + 1, Len(st)) IN
    CASE f.name = "swap" -> <<args[2], args[1]>> \o rest
      [] f.name = "dup" -> <<args[1], args[1]>> \o rest
      [] f.name = "dig2" -> <<args[3], args[1], args[2]>> \o rest
      [] f.name = "bury2" -> <<args[2], args[3], args[1]>> \o rest
      [] OTHER -> <<[f |-> f.name, in |-> args]>> \o rest
RECURSIVE Run(_, _)
Run(comp, st) ==      \* comp = <<f_n, ..., f_1>> : the last element is applied first
    IF comp = <<>> THEN st
    ELSE LET f == comp[Len(comp)] IN
         IF Len(st) < f.ar THEN Stuck ELSE Run(SubSeq(comp, 1, Len(comp) - 1), ApplyOne(f, st))
\* arity and outputs of a composition
RECURSIVE Need(_, _)
Need(comp, have) == IF comp = <<>> THEN 0
                    ELSE LET f == comp[Len(comp)]  missing == IF f.ar > have THEN f.ar - have ELSE 0
                         IN missing + Need(SubSeq(comp, 1, Len(comp) - 1), have + missing - f.ar + f.out)
Arity(comp) == Need(comp, 0)


SigOf(name) == CHOOSE f \in Sig : f.name = name
LeafNames == <<"x", "y", "z", "w", "v", "u", "s", "r", "q">>
\* numeric meaning over equally shaped operands: env maps a leaf name to its sequence of elements
RECURSIVE Interp(_, _)
Interp(t, env) ==
    IF t.in = <<>> THEN env[t.f]
    ELSE LET a == [m \in 1..Len(t.in) |-> Interp(t.in[m], env)]  n == Len(a[1]) IN
         CASE t.f = "u1" -> [q \in 1..n |-> -a[1][q]]
           [] t.f = "u2" -> [q \in 1..n |-> a[1][q] * a[1][q]]
           [] t.f = "b" -> [q \in 1..n |-> a[1][q] - a[2][q]]
           [] t.f = "t" -> [q \in 1..n |-> IF a[1][q] # 0 THEN a[2][q] ELSE a[3][q]]
=================================================================================
