---------------------------------- MODULE Options ----------------------------------
(* C19 (second part): utl::maybe, utl::either and utl::tuple as a state machine over *)
(* two objects.  Layer R is the behaviour of std::optional / std::variant /          *)
(* std::tuple: an object holds exactly the alternative and value last put into it,   *)
(* copies are independent, self-assignment changes nothing.  Kind "maybe_vec" is     *)
(* maybe<utl::vector<int>> (non-trivial payload): the payload's buffer must be freed *)
(* exactly once.                                                                      *)
EXTENDS Naturals, Sequences, FiniteSets, TLC
CONSTANTS Kind,      \* "maybe" | "either" | "tuple" | "maybe_vec"
          Vals, MaxHist
VARIABLES ref, hist
vars == <<ref, hist>>
Obj == 1..2
Dead == [live |-> FALSE, tag |-> "none", val |-> <<>>]
\* tag: "nothing" (empty optional) | "left" | "right"; val: sequence of integers (one value; two for a tuple; vector contents)
Init == ref = [o \in Obj |-> Dead] /\ hist = <<>>
DefaultVal == CASE Kind \in {"maybe", "maybe_vec"} -> [live |-> TRUE, tag |-> "nothing", val |-> <<>>]
                [] Kind = "either" -> [live |-> TRUE, tag |-> "left", val |-> <<0>>]
                [] Kind = "tuple" -> [live |-> TRUE, tag |-> "left", val |-> <<0, 0>>]
Tags == CASE Kind \in {"maybe", "maybe_vec"} -> {"nothing", "left"} [] Kind = "either" -> {"left", "right"} [] Kind = "tuple" -> {"left"}
Payload(tag, v) == IF tag = "nothing" THEN <<>> ELSE IF Kind = "tuple" THEN <<v, v + 10>> ELSE IF Kind = "maybe_vec" THEN <<v, v>> ELSE <<v>>
Enabled(a) ==
    CASE a.op \in {"ctor", "ctor_val"} -> ~ref[a.o].live
      [] a.op = "copy" -> ~ref[a.o].live /\ ref[a.p].live /\ a.o # a.p
      [] a.op = "assign" -> ref[a.o].live /\ ref[a.p].live
      [] a.op = "assign_val" -> ref[a.o].live
      [] a.op = "write" -> ref[a.o].live /\ ref[a.o].tag # "nothing" /\ a.i < Len(ref[a.o].val)
      [] a.op = "dtor" -> ref[a.o].live
RefDo(a) ==
    CASE a.op = "ctor" -> DefaultVal
      [] a.op \in {"ctor_val", "assign_val"} -> [live |-> TRUE, tag |-> a.tag, val |-> Payload(a.tag, a.v)]
      [] a.op \in {"copy", "assign"} -> ref[a.p]
      [] a.op = "write" -> [ref[a.o] EXCEPT !.val[a.i + 1] = a.v]
      [] a.op = "dtor" -> Dead
Actions ==
    {[op |-> "ctor", o |-> o] : o \in Obj} \cup {[op |-> k, o |-> o, tag |-> t, v |-> v] : k \in {"ctor_val", "assign_val"}, o \in Obj, t \in Tags, v \in Vals}
    \cup {[op |-> k, o |-> o, p |-> p] : k \in {"copy", "assign"}, o \in Obj, p \in Obj}
    \cup {[op |-> "write", o |-> o, i |-> i, v |-> v] : o \in Obj, i \in 0..1, v \in Vals} \cup {[op |-> "dtor", o |-> o] : o \in Obj}
Do(a) == Enabled(a) /\ ref' = [ref EXCEPT ![a.o] = RefDo(a)] /\ hist' = Append(hist, a)
Next == Len(hist) < MaxHist /\ \E a \in Actions : Do(a)
Spec == Init /\ [][Next]_vars
View == ref
TypeOK == \A o \in Obj : ref[o].live => ref[o].tag \in Tags /\ (ref[o].tag = "nothing" <=> ref[o].val = <<>>)
Independent == [][\A o \in Obj : (hist' # hist /\ hist'[Len(hist')].o # o) => ref'[o] = ref[o]]_vars
SelfAssignHarmless == [][(hist' # hist /\ hist'[Len(hist')].op = "assign" /\ hist'[Len(hist')].o = hist'[Len(hist')].p) => ref' = ref]_vars
\* number of live heap buffers the implementation should hold (maybe_vec: one per engaged optional)
LiveBuffers(r) == IF Kind = "maybe_vec" THEN Cardinality({o \in Obj : r[o].live /\ r[o].tag = "left"}) ELSE 0
=================================================================================
