---------------------------------- MODULE Slice ----------------------------------
(* C05 reference semantics: Python/NumPy basic indexing.  A slice specification  *)
(* is a sequence of parts: [k |-> "i", i |-> n] (integer, drops the axis),       *)
(* [k |-> "s", start, stop, step] (each optional: <<>> or <<v>>) and              *)
(* [k |-> "e"] (ellipsis, at most one).                                           *)
EXTENDS Base

\* Python's slice.indices(n) plus the resulting length
PySlice(start, stop, step, n) ==
    LET st == IF step = <<>> THEN 1 ELSE step[1]
        lo == IF st > 0 THEN 0 ELSE -1
        hi == IF st > 0 THEN n ELSE n - 1
        s == IF start = <<>> THEN (IF st > 0 THEN lo ELSE hi)
             ELSE IF start[1] < 0 THEN Max2(start[1] + n, lo) ELSE Min2(start[1], hi)
        e == IF stop = <<>> THEN (IF st > 0 THEN hi ELSE lo)
             ELSE IF stop[1] < 0 THEN Max2(stop[1] + n, lo) ELSE Min2(stop[1], hi)
        \* ceil((e - s) / st) written so that no intermediate value exceeds the extent (TLC integers are 32-bit, extents go to 2^31 - 1)
        len == IF st > 0 THEN (IF e > s THEN (e - s - 1) \div st + 1 ELSE 0)
               ELSE (IF s > e THEN (s - e - 1) \div (-st) + 1 ELSE 0)
    IN [start |-> s, stop |-> e, step |-> st, len |-> len]

IsInt(p) == p.k = "i"
IsEll(p) == p.k = "e"
FullSlice == [k |-> "s", start |-> <<>>, stop |-> <<>>, step |-> <<>>]
NumEll(parts) == Cardinality({i \in 1..Len(parts) : IsEll(parts[i])})
\* expand the ellipsis / pad with full slices so that there is one part per source axis
ExpandParts(parts, d) ==
    LET m == Len(parts) - NumEll(parts)
        e == IF NumEll(parts) = 1 THEN CHOOSE i \in 1..Len(parts) : IsEll(parts[i]) ELSE Len(parts) + 1
    IN SubSeq(parts, 1, e - 1) \o Const(d - m, FullSlice) \o SubSeq(parts, e + 1, Len(parts))
SpecOk(shape, parts) ==
    /\ NumEll(parts) <= 1
    /\ Len(parts) - NumEll(parts) <= Len(shape)
    /\ LET ps == ExpandParts(parts, Len(shape)) IN
       \A i \in 1..Len(ps) : IF IsInt(ps[i]) THEN ps[i].i >= -shape[i] /\ ps[i].i < shape[i]
                             ELSE ps[i].step = <<>> \/ ps[i].step[1] # 0
SliceShape(shape, parts) ==
    LET ps == ExpandParts(parts, Len(shape))
        kept == SelectSeq(Range0(Len(ps)), LAMBDA j : ~IsInt(ps[j + 1]))
    IN [q \in 1..Len(kept) |-> LET j == kept[q] + 1 IN PySlice(ps[j].start, ps[j].stop, ps[j].step, shape[j]).len]
\* index level: the source index addressed by result index i (0-based, one entry per kept axis)
SliceSrcIndex(shape, parts, i) ==
    LET d == Len(shape)
        ps == ExpandParts(parts, d)
        kept == SelectSeq(Range0(d), LAMBDA j : ~IsInt(ps[j + 1]))
        pos == [j \in 1..d |-> Cardinality({q \in 1..Len(kept) : kept[q] + 1 <= j})]
    IN [j \in 1..d |-> IF IsInt(ps[j]) THEN (IF ps[j].i < 0 THEN ps[j].i + shape[j] ELSE ps[j].i)
                        ELSE LET py == PySlice(ps[j].start, ps[j].stop, ps[j].step, shape[j]) IN py.start + i[pos[j]] * py.step]
SliceView(a, parts) ==
    IF ~SpecOk(a.shape, parts) THEN Nothing
    ELSE LET d == Len(a.shape)
             ps == ExpandParts(parts, d)
             kept == SelectSeq(Range0(d), LAMBDA j : ~IsInt(ps[j + 1]))
             pos == [j \in 1..d |-> Cardinality({q \in 1..Len(kept) : kept[q] + 1 <= j})]   \* result axis of source axis j
             py == [j \in 1..d |-> IF IsInt(ps[j]) THEN [start |-> 0, step |-> 0, len |-> 0] ELSE PySlice(ps[j].start, ps[j].stop, ps[j].step, a.shape[j])]
             shp == [q \in 1..Len(kept) |-> py[kept[q] + 1].len]
         IN IF Prod(shp) = 0 THEN [ok |-> TRUE, shape |-> shp, elems |-> <<>>]
            ELSE Mk(shp, LAMBDA i : At(a, [j \in 1..d |-> IF IsInt(ps[j]) THEN (IF ps[j].i < 0 THEN ps[j].i + a.shape[j] ELSE ps[j].i)
                                                          ELSE py[j].start + i[pos[j]] * py[j].step]))
=================================================================================
