CONSTANTS MaxLen = 4
SPECIFICATION Spec
INVARIANTS LawAssociative LawArity LawSurplus LawCombinators
CHECK_DEADLOCK FALSE
