CONSTANTS Kind = "maybe" Vals = {1, 2} MaxHist = 6
SPECIFICATION Spec
VIEW View
ACTION_CONSTRAINT Emit
CHECK_DEADLOCK FALSE
