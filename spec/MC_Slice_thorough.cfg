CONSTANTS N = 6 B = 2
  BIG = {16777217, 16777219, 33554435, 100000001, 1073741825, 2147483639}
SPECIFICATION Spec
INVARIANTS LawInRange LawLenIsRangeLen LawLenBoundary LawDefaults LawNegativeCountsFromEnd LawViewElements
CHECK_DEADLOCK FALSE
