CONSTANTS N = 6 B = 2
SPECIFICATION Spec
INVARIANTS LawInRange LawLenIsRangeLen LawDefaults LawNegativeCountsFromEnd LawViewElements
CHECK_DEADLOCK FALSE
