CONSTANTS KindDesc <- Desc_fixbuf_const Shapes <- ShapesQuick MaxHist = 1000
SPECIFICATION TraceSpec
POSTCONDITION TraceAccepted
CHECK_DEADLOCK FALSE
