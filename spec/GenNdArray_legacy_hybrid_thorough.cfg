CONSTANTS KindDesc <- Desc_legacy_hybrid Shapes <- ShapesThorough MaxHist = 5
SPECIFICATION Spec
VIEW View
ACTION_CONSTRAINT Emit
CHECK_DEADLOCK FALSE
