CONSTANTS Kind = "small" Cap = 2 Vals = {1, 2} NObj = 2 MaxHist = 4
SPECIFICATION Spec
VIEW View
ACTION_CONSTRAINT Emit
CHECK_DEADLOCK FALSE
