-------------------------------- MODULE Broadcast --------------------------------
(* C06 reference semantics: NumPy broadcasting of shapes (Layer R) and the       *)
(* implementation-shaped right-aligned loop of index::broadcast_shape (Layer I). *)
EXTENDS Base

\* right-aligned extent of shape s at position i counted from the right (1 = last axis); 1 when beyond the rank
FromRight(s, i) == IF i <= Len(s) THEN s[Len(s) + 1 - i] ELSE 1
Compatible(x, y) == x = y \/ x = 1 \/ y = 1

BShapeOk(a, b) == \A i \in 1..Max2(Len(a), Len(b)) : Compatible(FromRight(a, i), FromRight(b, i))
BShapeVal(a, b) == LET n == Max2(Len(a), Len(b)) IN [j \in 1..n |-> Max2(FromRight(a, n + 1 - j), FromRight(b, n + 1 - j))]
\* result as <<ok, shape>>
BShape(a, b) == IF BShapeOk(a, b) THEN <<TRUE, BShapeVal(a, b)>> ELSE <<FALSE, <<>>>>
RECURSIVE BShapeFold(_, _, _)
BShapeFold(acc, shapes, i) == IF i > Len(shapes) THEN acc
                              ELSE IF ~acc[1] THEN acc
                              ELSE BShapeFold(BShape(acc[2], shapes[i]), shapes, i + 1)
BShapeN(shapes) == BShapeFold(<<TRUE, shapes[1]>>, shapes, 2)
\* direct n-ary characterisation (order free): per axis all extents equal or 1
BShapeNOk(shapes) == LET n == CHOOSE m \in {Len(shapes[k]) : k \in 1..Len(shapes)} : \A k \in 1..Len(shapes) : Len(shapes[k]) <= m
                     IN \A i \in 1..n : \A k1 \in 1..Len(shapes), k2 \in 1..Len(shapes) : Compatible(FromRight(shapes[k1], i), FromRight(shapes[k2], i))

\* broadcast_to: src stretched to dst
BroadcastToOk(src, dst) == Len(dst) >= Len(src) /\ \A i \in 1..Len(src) : FromRight(src, i) = FromRight(dst, i) \/ FromRight(src, i) = 1
BroadcastToIdx(src, dst, i) ==     \* source index of destination index i: prepended axes dropped, stretched axes read at 0
    [m \in 1..Len(src) |-> IF src[m] = 1 THEN 0 ELSE i[m + Len(dst) - Len(src)]]
BroadcastTo(a, dst) == IF BroadcastToOk(a.shape, dst) /\ \A i \in 1..Len(dst) : dst[i] >= 1
                       THEN Mk(dst, LAMBDA i : At(a, BroadcastToIdx(a.shape, dst, i))) ELSE Nothing
\* axes of dst that are not stretched/prepended (free axes), as booleans per dst axis
FreeAxes(src, dst) == [j \in 1..Len(dst) |-> LET m == j - (Len(dst) - Len(src)) IN m >= 1 /\ src[m] = dst[j]]

-------------------------------------------------------------------------------
\* Layer I: the loop of index::impl::broadcast_shape - res filled from behind, the success flag is ASSIGNED per
\* axis and the loop breaks on the first failure
RECURSIVE ImplLoop(_, _, _, _, _)
ImplLoop(a, b, i, res, success) ==
    LET rdim == Len(res) IN
    IF i >= rdim THEN <<success, res>>
    ELSE LET si == rdim - i      \* 1-based position rdim-i-1+1
             ai == Len(a) - i    \* 1-based
             bi == Len(b) - i
             step == IF ai >= 1 /\ bi >= 1
                     THEN <<Compatible(a[ai], b[bi]), [res EXCEPT ![si] = Max2(a[ai], b[bi])]>>
                     ELSE IF bi < 1 THEN <<success, [res EXCEPT ![si] = a[ai]]>>
                     ELSE <<success, [res EXCEPT ![si] = b[bi]]>>
         IN IF ~step[1] THEN <<FALSE, step[2]>> ELSE ImplLoop(a, b, i + 1, step[2], step[1])
ImplBShape(a, b) == LET r == ImplLoop(a, b, 0, Const(Max2(Len(a), Len(b)), 0), TRUE) IN IF r[1] THEN r ELSE <<FALSE, <<>>>>
=================================================================================
