------------------------------- MODULE TraceKernel -------------------------------
(* Trace validation for C13: a schedule of the per-thread kernel body executed on *)
(* the host.  Accepted iff (property level) threads whose global id is not below  *)
(* the output size change nothing, no guard cell changes, and after every thread  *)
(* has run the output equals the denotation of the program (= host evaluation).   *)
(* That thread gid writes exactly out[gid] is the implementation-shaped           *)
(* prediction: a deviation is reported as drift, not as a violation.              *)
EXTENDS Denote, Json, IOUtils, TLC

TraceLog == ndJsonDeserialize(IOEnv.TRACE)
VARIABLES l, bad, exp, bs, ran, drift
tvars == <<l, bad, exp, bs, ran, drift>>
Ev == TraceLog[l]
Note(why, x) == Append(bad, [l |-> l, id |-> Ev.id, why |-> why, expect |-> x])

TInit == l = 1 /\ bad = <<>> /\ exp = Nothing /\ bs = 1 /\ ran = {} /\ drift = 0
TBegin == /\ l <= Len(TraceLog) /\ Ev.e = "kbegin"
          /\ LET d == RunProg(Ev.prog, 1, Leaf(Ev.shapes[1], 0)) IN
             /\ exp' = [ok |-> d.ok, shape |-> d.shape, elems |-> d.elems]
             /\ bad' = IF "crash" \in DOMAIN Ev /\ Ev.crash # "" THEN Note("crash", [crash |-> Ev.crash])
                       ELSE IF d.ok /\ ~Ev.nothing /\ Ev.oshape = d.shape /\ Ev.size = Prod(d.shape) /\ Ev.bs * Ev.grid >= Ev.size THEN bad
                       ELSE IF ~d.ok /\ Ev.nothing THEN bad
                       ELSE Note("launch: output shape / validity", [ok |-> d.ok, shape |-> d.shape])
          /\ bs' = Ev.bs /\ ran' = {} /\ UNCHANGED drift /\ l' = l + 1
TThread == /\ l <= Len(TraceLog) /\ Ev.e = "kthread"
           /\ LET gid == Ev.b * bs + Ev.t
                  size == Prod(exp.shape)
                  good == Ev.guard_ok /\ (gid >= size => Ev.changed = <<>>) /\ (\A q \in 1..Len(Ev.changed) : Ev.changed[q] >= 0 /\ Ev.changed[q] < size)
              IN /\ bad' = IF good THEN bad ELSE Note("thread wrote outside its output", [gid |-> gid, size |-> size])
                 /\ ran' = ran \cup {gid}
                 /\ drift' = IF \A q \in 1..Len(Ev.changed) : Ev.changed[q] = gid THEN drift ELSE drift + 1
           /\ UNCHANGED <<exp, bs>> /\ l' = l + 1
TEnd == /\ l <= Len(TraceLog) /\ Ev.e = "kend"
        /\ LET size == Prod(exp.shape)
               complete == \A g \in 0..(size - 1) : g \in ran
           IN bad' = IF ~complete THEN Note("schedule does not run every thread", [size |-> size])
                     ELSE IF Ev.guard_ok /\ Ev.out = exp.elems THEN bad ELSE Note("final output differs from host evaluation", [out |-> exp.elems])
        /\ UNCHANGED <<exp, bs, ran, drift>> /\ l' = l + 1
TCrash == /\ l <= Len(TraceLog) /\ Ev.e = "crash"
          /\ bad' = Note("crash", [crash |-> Ev.res.crash]) /\ UNCHANGED <<exp, bs, ran, drift>> /\ l' = l + 1
TFinish == /\ l = Len(TraceLog) + 1 /\ ndJsonSerialize(IOEnv.OUT, bad) /\ PrintT(<<"DRIFT", drift>>) /\ l' = l + 1 /\ UNCHANGED <<bad, exp, bs, ran, drift>>
TNext == TBegin \/ TThread \/ TEnd \/ TCrash \/ TFinish
TraceSpec == TInit /\ [][TNext]_tvars
TraceAccepted == TLCGet("stats").diameter = Len(TraceLog) + 2
=================================================================================
