------------------------------- MODULE GenLayout -------------------------------
(* Exports the scope of MC_Layout (the shapes the addressing machine was model  *)
(* checked on) as replay cases for the real code.                                *)
EXTENDS MC_Layout, Json, IOUtils, SequencesExt
Table(S) == SetToSeq({[shape |-> s] : s \in S})
ASSUME ndJsonSerialize(IOEnv.OUT, Table(IF IOEnv.SCOPE = "quick" THEN MCShapesQuick ELSE MCShapes))
=================================================================================
