CONSTANTS Leaves <- LeavesThorough MaxDepth = 3 MaxSize = 48
SPECIFICATION Spec
ACTION_CONSTRAINT Emit
CHECK_DEADLOCK FALSE
