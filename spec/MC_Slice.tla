-------------------------------- MODULE MC_Slice --------------------------------
(* Laws of the slicing reference checked per axis: a state is (n, start, stop,   *)
(* step).  The characterisation is the one of Python's range(): the selected     *)
(* positions are exactly those reached from start' by step while staying on the  *)
(* proper side of stop'.                                                          *)
EXTENDS Slice, TLC
CONSTANTS N, B,
          BIG       \* extents for the index-math scope (up to 2^31 - 9): bounds are taken around 0, n/2 and n of either sign
VARIABLES n, start, stop, step
vars == <<n, start, stop, step>>
Opt(S) == {<<>>} \cup {<<v>> : v \in S}
Around(m) == UNION {{c - B, c - 1, c, c + 1, c + B} : c \in {0, m \div 2, m}}
BigBounds(m) == Around(m) \cup {-x : x \in Around(m)}
Init == \/ /\ n \in 1..N /\ start \in Opt((-(N + B))..(N + B)) /\ stop \in Opt((-(N + B))..(N + B))
           /\ step \in Opt((-3..3) \ {0})
           /\ (start # <<>> => start[1] \in (-(n + B))..(n + B)) /\ (stop # <<>> => stop[1] \in (-(n + B))..(n + B))
        \/ /\ n \in BIG /\ start \in Opt(BigBounds(n)) /\ stop \in Opt(BigBounds(n)) /\ step \in Opt((-3..3) \ {0})
Small == n <= N
Next == UNCHANGED vars
Spec == Init /\ [][Next]_vars
P == PySlice(start, stop, step, n)
Sel == {P.start + k * P.step : k \in 0..(P.len - 1)}
LawInRange == Small => \A x \in Sel : x >= 0 /\ x < n
LawLenIsRangeLen == Small =>
    LET members == {x \in (-1)..n : IF P.step > 0 THEN x >= P.start /\ x < P.stop /\ (x - P.start) % P.step = 0
                                    ELSE x <= P.start /\ x > P.stop /\ (P.start - x) % (-P.step) = 0}
    IN members = Sel /\ Cardinality(Sel) = P.len
\* the same characterisation without enumeration (any extent): len is the number of steps from start' that stay on the proper
\* side of stop'; checked together with LawLenIsRangeLen on the small scope and alone on the BIG extents
Proper(x) == IF P.step > 0 THEN x >= 0 /\ x < P.stop /\ x < n ELSE x <= n - 1 /\ x > P.stop /\ x >= 0
LawLenBoundary == /\ P.len >= 0
                  /\ P.len > 0 => Proper(P.start) /\ Proper(P.start + (P.len - 1) * P.step)
                  /\ ~Proper(P.start + P.len * P.step)
LawDefaults == /\ (start = <<>> /\ stop = <<>> /\ step = <<>>) => (P.start = 0 /\ P.len = n)
               /\ (start = <<>> /\ stop = <<>> /\ step = <<-1>>) => (P.start = n - 1 /\ P.len = n)
LawNegativeCountsFromEnd ==
    /\ (start # <<>> /\ start[1] < 0 /\ start[1] >= -n) => PySlice(<<start[1] + n>>, stop, step, n) = P
    /\ (stop # <<>> /\ stop[1] < 0 /\ stop[1] >= -n) => PySlice(start, <<stop[1] + n>>, step, n) = P
\* the view over a 1-d array picks exactly these elements in this order
LawViewElements == Small => LET A == Leaf(<<n>>, 0)  v == SliceView(A, <<[k |-> "s", start |-> start, stop |-> stop, step |-> step]>>) IN
    /\ v.ok /\ v.shape = <<P.len>>
    /\ v.elems = [k \in 1..P.len |-> P.start + (k - 1) * P.step + 1]
=================================================================================
