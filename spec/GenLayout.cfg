CONSTANT Shapes = {}
SPECIFICATION Spec
CHECK_DEADLOCK FALSE
