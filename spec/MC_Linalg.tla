------------------------------- MODULE MC_Linalg -------------------------------
(* Identities between the linear-algebra routines, checked by TLC on all pairs  *)
(* of small shapes.                                                               *)
EXTENDS Linalg, TLC
CONSTANTS D, E
VARIABLES a, b
vars == <<a, b>>
S == ShapesOf(1, D, 1..E)
Init == a \in S /\ b \in S
Next == UNCHANGED vars
Spec == Init /\ [][Next]_vars
A == [ok |-> TRUE, shape |-> a, elems |-> [p \in 1..Prod(a) |-> p]]
B == [ok |-> TRUE, shape |-> b, elems |-> [p \in 1..Prod(b) |-> 7 + p]]
Law2dMatmulIsTensordot == (Len(a) = 2 /\ Len(b) = 2) => Matmul(A, B) = Tensordot(A, B, 1)
Law1dInnerIsDot == (Len(a) = 1 /\ Len(b) = 1) => (Inner(A, B) = DotProduct(A, B) /\ Matmul(A, B) = Inner(A, B) /\ (a = b => Vecdot(A, B) = Inner(A, B)))
LawDotIs2dMatmul == (Len(a) = 2 /\ Len(b) = 2) => DotProduct(A, B) = Matmul(A, B)
LawKronShape == Kron(A, B).shape = [m \in 1..Max2(Len(a), Len(b)) |-> FromRight(a, Max2(Len(a), Len(b)) + 1 - m) * FromRight(b, Max2(Len(a), Len(b)) + 1 - m)]
LawTensordot0IsOuter == Tensordot(A, B, 0).elems = OuterProduct(A, B).elems /\ Tensordot(A, B, 0).shape = a \o b
LawMatmulShape == Matmul(A, B).ok => (Len(a) >= 2 /\ Len(b) >= 2 => Len(Matmul(A, B).shape) = Max2(Len(a), Len(b)))
LawMatmulValidity == Matmul(A, B).ok <=>
    (FromRight(a, 1) = (IF Len(b) = 1 THEN b[1] ELSE FromRight(b, 2)) /\ BShapeOk(SubSeq(a, 1, Max2(Len(a) - 2, 0)), SubSeq(b, 1, Max2(Len(b) - 2, 0))))
=================================================================================
