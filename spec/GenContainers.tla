------------------------------ MODULE GenContainers ------------------------------
(* Exports one history per explored transition of the container machine (a       *)
(* transition tour of the abstract/hidden state graph) for replay on real objects.*)
EXTENDS Containers, Json
Emit == hist' # hist => PrintT(ToJson([h |-> hist']))
=================================================================================
