CONSTANTS D = 3 E = 3
SPECIFICATION Spec
INVARIANTS LawShapeIsBroadcast LawMixSeesOperandOrder LawCommutativeOps LawOuter LawReduceAll LawReducePartial LawAccumulateLast
CHECK_DEADLOCK FALSE
