CONSTANTS KindDesc <- Desc_dyn_clipped Shapes <- ShapesQuick MaxHist = 4
SPECIFICATION Spec
VIEW View
ACTION_CONSTRAINT Emit
CHECK_DEADLOCK FALSE
