CONSTANTS MaxTerms = 3
SPECIFICATION Spec
INVARIANTS Law ListingLaw
CHECK_DEADLOCK FALSE
