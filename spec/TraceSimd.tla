-------------------------------- MODULE TraceSimd --------------------------------
(* Trace validation for C12: an event holds the result of the default (scalar)    *)
(* evaluator and of a SIMD context for the same operation, as bit-pattern tokens, *)
(* plus - for the tracing context - every packed load/store of the real evaluator *)
(* relative to the operand / result buffer it falls into.  Accepted iff shapes    *)
(* and bit patterns agree (data for reductions are small integers, so any         *)
(* association gives the same bits) and every access lies inside its buffer.      *)
EXTENDS Naturals, Integers, Sequences, Json, IOUtils, TLC
TraceLog == ndJsonDeserialize(IOEnv.TRACE)
VARIABLES l, bad
tvars == <<l, bad>>
Ev == TraceLog[l]
AccOk(a) == a[2] = -1 \/ (a[3] >= 0 /\ a[3] + a[4] <= a[5])       \* <<kind, region, offset, bytes, buffer bytes>>
Good(r) == /\ r.crash = ""
           /\ r.simd.ok = r.scalar.ok /\ r.simd.shape = r.scalar.shape /\ r.simd.elems = r.scalar.elems
           /\ \A q \in 1..Len(r.acc) : AccOk(r.acc[q])
Why(r) == IF r.crash # "" THEN "crash" ELSE IF \E q \in 1..Len(r.acc) : ~AccOk(r.acc[q]) THEN "packed access outside its buffer" ELSE "SIMD result differs from the scalar evaluator"
TInit == l = 1 /\ bad = <<>>
TOp == /\ l <= Len(TraceLog)
       /\ bad' = IF "scalar" \in DOMAIN Ev.res /\ Good(Ev.res) THEN bad
                 ELSE Append(bad, [l |-> l, id |-> Ev.id, why |-> IF "scalar" \in DOMAIN Ev.res THEN Why(Ev.res) ELSE "crash",
                                   expect |-> IF "scalar" \in DOMAIN Ev.res THEN Ev.res.scalar ELSE [ok |-> TRUE]])
       /\ l' = l + 1
TFinish == /\ l = Len(TraceLog) + 1 /\ ndJsonSerialize(IOEnv.OUT, bad) /\ l' = l + 1 /\ UNCHANGED bad
TNext == TOp \/ TFinish
TraceSpec == TInit /\ [][TNext]_tvars
TraceAccepted == TLCGet("stats").diameter = Len(TraceLog) + 2
=================================================================================
