CONSTANTS NMax = 7
SPECIFICATION Spec
INVARIANTS LawConvOutCountsWindows LawPoolFloor LawPoolCeil LawConvIdentity LawMaxPoolCoversAll
CHECK_DEADLOCK FALSE
