------------------------------- MODULE Functional -------------------------------
(* C14 design model: functors with attributes already bound, currying and         *)
(* composition as a stack machine.  A composition is a list of functors           *)
(* <<f_n, ..., f_1>>; applying it to an operand stack applies f_1 to the first    *)
(* arity(f_1) operands, pushes its results in front of the remaining operands,    *)
(* and continues with f_2.  Combinators permute / duplicate the stack.            *)
(* Values are abstract terms, so the laws hold for every interpretation.          *)
EXTENDS StackMachine

CONSTANTS MaxLen
VARIABLES comp
Init == comp \in UNION {[1..n -> Sig] : n \in 1..MaxLen}
Next == UNCHANGED comp
Spec == Init /\ [][Next]_comp
Stack == <<L("x"), L("y"), L("z"), L("w"), L("v"), L("u"), L("s"), L("r"), L("q")>>
Enough == SubSeq(Stack, 1, Arity(comp))
\* composition is associative: any split of the list evaluates to the same stack
LawAssociative == \A k \in 1..(Len(comp) - 1) :
    Run(SubSeq(comp, 1, k), Run(SubSeq(comp, k + 1, Len(comp)), Enough)) = Run(comp, Enough)
\* the computed arity is exactly what the machine consumes: enough operands never get stuck, one fewer does
LawArity == /\ Run(comp, Enough) # Stuck
            /\ (Arity(comp) > 0 => Run(comp, SubSeq(Stack, 1, Arity(comp) - 1)) = Stuck)
\* surplus operands are passed on untouched
LawSurplus == Run(comp, Enough \o <<L("extra")>>) = Run(comp, Enough) \o <<L("extra")>>
\* combinators
Sig_swap == CHOOSE f \in Sig : f.name = "swap"
Sig_dup == CHOOSE f \in Sig : f.name = "dup"
Sig_dig2 == CHOOSE f \in Sig : f.name = "dig2"
Sig_bury2 == CHOOSE f \in Sig : f.name = "bury2"
LawCombinators == /\ Run(<<Sig_swap, Sig_swap>>, <<L("x"), L("y")>>) = <<L("x"), L("y")>>
                  /\ Run(<<Sig_dig2, Sig_bury2>>, <<L("x"), L("y"), L("z")>>) = <<L("x"), L("y"), L("z")>>
                  /\ Run(<<Sig_swap, Sig_dup>>, <<L("x")>>) = <<L("x"), L("x")>>
=================================================================================
