------------------------------- MODULE Functional -------------------------------
(* C14 design model: functors with attributes already bound, currying and         *)
(* composition as a stack machine.  A composition is a list of functors           *)
(* <<f_n, ..., f_1>>; applying it to an operand stack applies f_1 to the first    *)
(* arity(f_1) operands, pushes its results in front of the remaining operands,    *)
(* and continues with f_2.  Combinators permute / duplicate the stack.            *)
(* Values are abstract terms, so the laws hold for every interpretation.          *)
EXTENDS Naturals, Sequences, FiniteSets, TLC

CONSTANTS MaxLen
Sig == {[name |-> "u1", ar |-> 1, out |-> 1], [name |-> "u2", ar |-> 1, out |-> 1], [name |-> "b", ar |-> 2, out |-> 1], [name |-> "t", ar |-> 3, out |-> 1],
        [name |-> "swap", ar |-> 2, out |-> 2], [name |-> "dup", ar |-> 1, out |-> 2], [name |-> "dig2", ar |-> 3, out |-> 3], [name |-> "bury2", ar |-> 3, out |-> 3]}
L(n) == [f |-> n, in |-> <<>>]      \* leaf term
Stuck == <<L("stuck")>>

\* one functor applied to the front of the stack
ApplyOne(f, st) ==
    LET args == SubSeq(st, 1, f.ar)  rest == SubSeq(st, f.ar + 1, Len(st)) IN
    CASE f.name = "swap" -> <<args[2], args[1]>> \o rest
      [] f.name = "dup" -> <<args[1], args[1]>> \o rest
      [] f.name = "dig2" -> <<args[3], args[1], args[2]>> \o rest
      [] f.name = "bury2" -> <<args[2], args[3], args[1]>> \o rest
      [] OTHER -> <<[f |-> f.name, in |-> args]>> \o rest
RECURSIVE Run(_, _)
Run(comp, st) ==      \* comp = <<f_n, ..., f_1>> : the last element is applied first
    IF comp = <<>> THEN st
    ELSE LET f == comp[Len(comp)] IN
         IF Len(st) < f.ar THEN Stuck ELSE Run(SubSeq(comp, 1, Len(comp) - 1), ApplyOne(f, st))
\* arity and outputs of a composition
RECURSIVE Need(_, _)
Need(comp, have) == IF comp = <<>> THEN 0
                    ELSE LET f == comp[Len(comp)]  missing == IF f.ar > have THEN f.ar - have ELSE 0
                         IN missing + Need(SubSeq(comp, 1, Len(comp) - 1), have + missing - f.ar + f.out)
Arity(comp) == Need(comp, 0)

VARIABLES comp
Init == comp \in UNION {[1..n -> Sig] : n \in 1..MaxLen}
Next == UNCHANGED comp
Spec == Init /\ [][Next]_comp
Stack == <<L("x"), L("y"), L("z"), L("w"), L("v"), L("u"), L("s"), L("r"), L("q")>>
Enough == SubSeq(Stack, 1, Arity(comp))
\* composition is associative: any split of the list evaluates to the same stack
LawAssociative == \A k \in 1..(Len(comp) - 1) :
    Run(SubSeq(comp, 1, k), Run(SubSeq(comp, k + 1, Len(comp)), Enough)) = Run(comp, Enough)
\* the computed arity is exactly what the machine consumes: enough operands never get stuck, one fewer does
LawArity == /\ Run(comp, Enough) # Stuck
            /\ (Arity(comp) > 0 => Run(comp, SubSeq(Stack, 1, Arity(comp) - 1)) = Stuck)
\* surplus operands are passed on untouched
LawSurplus == Run(comp, Enough \o <<L("extra")>>) = Run(comp, Enough) \o <<L("extra")>>
\* combinators
Sig_swap == CHOOSE f \in Sig : f.name = "swap"
Sig_dup == CHOOSE f \in Sig : f.name = "dup"
Sig_dig2 == CHOOSE f \in Sig : f.name = "dig2"
Sig_bury2 == CHOOSE f \in Sig : f.name = "bury2"
LawCombinators == /\ Run(<<Sig_swap, Sig_swap>>, <<L("x"), L("y")>>) = <<L("x"), L("y")>>
                  /\ Run(<<Sig_dig2, Sig_bury2>>, <<L("x"), L("y"), L("z")>>) = <<L("x"), L("y"), L("z")>>
                  /\ Run(<<Sig_swap, Sig_dup>>, <<L("x")>>) = <<L("x"), L("x")>>
=================================================================================
