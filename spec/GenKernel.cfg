CONSTANTS Sizes = {1, 2, 3, 4, 6, 8, 12, 16, 24, 32, 48} BlockSizes = {1, 2, 3, 4, 5, 8, 16, 32, 33} MaxDup = 2 MaxThreads = 132
SPECIFICATION Spec
ACTION_CONSTRAINT Emit
CHECK_DEADLOCK FALSE
