CONSTANTS KindDesc <- Desc_legacy_fixed Shapes <- ShapesQuick MaxHist = 1000
SPECIFICATION TraceSpec
POSTCONDITION TraceAccepted
CHECK_DEADLOCK FALSE
