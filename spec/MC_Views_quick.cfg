CONSTANTS D = 3 E = 3
SPECIFICATION Spec
INVARIANTS LawTransposeIsPermutation LawTransposeDefaultReverses LawTransposeNegativeAxes LawMoveAxisIsNumpy LawSwapAxes LawFlipInvolution LawFlipAllReversesBuffer LawReshapeKeepsCOrder LawReshapeRejects LawFlattenIsReshape LawExpandSqueeze LawAtLeast
CHECK_DEADLOCK FALSE
