CONSTANTS KindDesc <- Desc_boundbuf_dyn Shapes <- ShapesThorough MaxHist = 5
SPECIFICATION Spec
VIEW View
ACTION_CONSTRAINT Emit
CHECK_DEADLOCK FALSE
