CONSTANTS Kind = "maybe" Vals = {1, 2} MaxHist = 1000
SPECIFICATION TraceSpec
POSTCONDITION TraceAccepted
CHECK_DEADLOCK FALSE
