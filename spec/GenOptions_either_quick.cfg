CONSTANTS Kind = "either" Vals = {1, 2} MaxHist = 4
SPECIFICATION Spec
VIEW View
ACTION_CONSTRAINT Emit
CHECK_DEADLOCK FALSE
