CONSTANTS KindDesc <- Desc_dyn_bounddim Shapes <- ShapesQuick MaxHist = 1000
SPECIFICATION TraceSpec
POSTCONDITION TraceAccepted
CHECK_DEADLOCK FALSE
