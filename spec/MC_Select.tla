------------------------------- MODULE MC_Select -------------------------------
(* Laws of the C04 reference semantics checked by TLC on every source shape of  *)
(* the scope (provenance, inverses, equivalences between the operations).        *)
EXTENDS Select, TLC
CONSTANTS D, E
VARIABLE s
Init == s \in ShapesOf(1, D, 1..E)
Next == UNCHANGED s
Spec == Init /\ [][Next]_s
A == Leaf(s, 0)
d == Len(s)
Axes == (-d)..(d - 1)
Pop(x) == SeqToSet(x.elems)
LawRollInverse == \A ax \in Axes : \A sh \in (-2 * s[NormAxis(ax, d) + 1])..(2 * s[NormAxis(ax, d) + 1]) :
    LET r == Roll(A, <<sh>>, <<<<ax>>>>) IN
    /\ r.ok /\ r.shape = s /\ Pop(r) = Pop(A)
    /\ Roll(r, <<-sh>>, <<<<ax>>>>) = A
    /\ Roll(A, <<sh + s[NormAxis(ax, d) + 1]>>, <<<<ax>>>>) = r
LawRollFlat == \A sh \in (-3)..3 : LET r == Roll(A, <<sh>>, <<>>) IN r.ok /\ r.shape = s /\ Roll(r, <<-sh>>, <<>>) = A
LawSplitConcat == \A ax \in Axes : \A n \in 1..E : LET parts == SplitSections(A, n, ax) IN
    (Len(parts) = 2 => Concatenate(parts[1], parts[2], <<ax>>) = A)
    /\ (Len(parts) = 1 => parts[1] = A)
LawSplitIndices == \A ax \in Axes : \A k \in 0..s[NormAxis(ax, d) + 1] :
    LET parts == SplitIndices(A, <<k>>, ax) IN
    IF k = 0 THEN parts[2] = A ELSE IF k = s[NormAxis(ax, d) + 1] THEN parts[1] = A ELSE Concatenate(parts[1], parts[2], <<ax>>) = A
LawTileIsConcat == \A ax \in 0..(d - 1) : Tile(A, [j \in 1..d |-> IF j = ax + 1 THEN 2 ELSE 1]) = Concatenate(A, A, <<ax>>)
LawTilePrepends == Tile(A, <<2>> \o Const(d, 1)).shape = <<2>> \o s
LawTakeIdentity == \A ax \in Axes : LET n == s[NormAxis(ax, d) + 1] IN
    /\ Take(A, Range0(n), ax) = A
    /\ Take(A, [q \in 1..n |-> q - 1 - n], ax) = A
    /\ Take(A, Reverse(Range0(n)), ax) = Flip(A, <<<<ax>>>>)
LawRepeatScalar == \A ax \in Axes : \A r \in 1..3 :
    LET x == Repeat(A, <<r>>, TRUE, <<ax>>) IN
    /\ x.ok /\ x.shape = Set(s, NormAxis(ax, d) + 1, r * s[NormAxis(ax, d) + 1]) /\ Pop(x) = Pop(A)
    /\ Repeat(A, Const(s[NormAxis(ax, d) + 1], r), FALSE, <<ax>>) = x
    /\ (r = 1 => x = A)
LawCompressAllTrue == \A ax \in Axes : Compress(Const(s[NormAxis(ax, d) + 1], 1), A, <<ax>>) = A
LawStack == \A ax \in (-(d + 1))..d : LET x == Stack(A, A, ax) IN
    x.ok /\ Len(x.shape) = d + 1 /\ x.shape[NormAxis(ax, d + 1) + 1] = 2 /\ Take(x, <<0>>, ax) = ExpandDims(A, <<ax>>)
LawPadZeroWidth == Pad(A, Const(2 * d, 0), 0) = A
LawPadProvenance == \A w \in 0..2 : LET p == Pad(A, Const(2 * d, w), -7) IN
    p.ok /\ Pop(p) \subseteq (Pop(A) \cup {-7}) /\ Pop(A) \subseteq Pop(p)
    /\ Cardinality({k \in 1..Len(p.elems) : p.elems[k] # -7}) = Prod(s)
LawResizeIdentity == Resize(A, s) = A
LawResizeDouble == LET r == Resize(A, [j \in 1..d |-> 2 * s[j]]) IN r.ok /\ Pop(r) = Pop(A)
LawExpandZero == Expand(A, <<Range0(d)>>, <<0>>, -7) = A
LawExpandProvenance == \A sp \in 1..2 : LET x == Expand(A, <<Range0(d)>>, <<sp>>, -7) IN
    x.ok /\ Cardinality({k \in 1..Len(x.elems) : x.elems[k] # -7}) = Prod(s) /\ Pop(A) \subseteq Pop(x)
LawSlidingWindowFull == d <= 2 => LET x == SlidingWindow(A, s, <<>>) IN x.ok /\ x.shape = Const(d, 1) \o s /\ x.elems = A.elems
LawDiagonal == d >= 2 => \A off \in (-E)..E :
    LET x == Diagonal(A, off, 0, 1)  y == Diagonal(A, -off, 1, 0) IN x.ok /\ y.ok /\ x = y /\ Pop(x) \subseteq Pop(A)
LawTrilTriu == d >= 2 => \A k \in (-E)..E :
    LET lo == Tril(A, k)  up == Triu(A, k + 1) IN
    \A q \in 1..Len(A.elems) : (lo.elems[q] = 0 \/ up.elems[q] = 0) /\ lo.elems[q] + up.elems[q] = A.elems[q]
LawDiagFlat == d = 1 => \A k \in (-2)..2 : LET m == DiagFlat(A, k) IN
    m.ok /\ m.shape = <<s[1] + Abs(k), s[1] + Abs(k)>> /\ Diagonal(m, k, 0, 1) = A
LawGenerators == /\ Eye(3, 3, 0) = Tril(Triu(Full(<<3, 3>>, 1), 0), 0)
                 /\ Tri(3, 4, 1) = Tril(Full(<<3, 4>>, 1), 1)
                 /\ Arange(0, Prod(s), 1).elems = [q \in 1..Prod(s) |-> q - 1]
                 /\ Arange(5, 0, -2).elems = <<5, 3, 1>> /\ Arange(0, 5, 2).elems = <<0, 2, 4>> /\ Arange(3, 3, 1).elems = <<>>
                 /\ LinspaceScaled(0, 4, 5, TRUE).elems = <<0, 4, 8, 12, 16>> /\ LinspaceScaled(0, 4, 4, FALSE).elems = <<0, 4, 8, 12>>
=================================================================================
