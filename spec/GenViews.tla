-------------------------------- MODULE GenViews --------------------------------
(* Case tables for C03 (and the invalid halves used by C15): every source shape *)
(* of the scope with every argument the property quantifies over.  Only inputs  *)
(* are exported; the expected results are computed by TraceOps on validation.   *)
EXTENDS Views, Json, IOUtils, SequencesExt, TLC

CONSTANTS D, E                  \* maximal dimension, maximal extent
Src(x_) == ShapesOf(0, D, 1..E)
Case(op, s, args) == [op |-> op, shapes |-> <<s>>, args |-> args]

DivTab == [n \in 1..(E ^ D) |-> {k \in 1..n : n % k = 0}]
Divisors(n) == DivTab[n]
RECURSIVE Factorizations(_, _)
Factorizations(n, d) == IF d = 0 THEN (IF n = 1 THEN {<<>>} ELSE {})
                        ELSE UNION {{<<k>> \o r : r \in Factorizations(n \div k, d - 1)} : k \in Divisors(n)}
SameCountTab == [n \in {Prod(s) : s \in ShapesOf(0, D, 1..E)} |-> UNION {Factorizations(n, d) : d \in 0..D}]
SameCount(s) == SameCountTab[Prod(s)]
WithMinus1(t) == {[t EXCEPT ![i] = -1] : i \in 1..Len(t)}
ReshapeValid(x_) == UNION {UNION {{Case("reshape", s, [dst |-> u]) : u \in {t} \cup WithMinus1(t)} : t \in SameCount(s)} : s \in Src(0)}
\* the invalid half: arbitrary entries -2..3 against small sources
ReshapeAny(x_) == {Case("reshape", s, [dst |-> t]) : s \in ShapesOf(0, 2, 1..3), t \in ShapesOf(1, 3, -2..3)}

Perms(d) == {p \in [1..d -> 0..(d - 1)] : IsPerm(p, d)}
Signs(p, d, k) == [i \in 1..d |-> IF k = 0 THEN p[i] ELSE IF k = 1 THEN p[i] - d ELSE IF (i % 2) = 0 THEN p[i] - d ELSE p[i]]
TransposeValid(x_) == UNION {{Case("transpose", s, [axes |-> <<>>])} \cup
                         {Case("transpose", s, [axes |-> <<Signs(p, Len(s), k)>>]) : p \in Perms(Len(s)), k \in 0..2} : s \in Src(0)}
TransposeAny(x_) == {Case("transpose", s, [axes |-> <<t>>]) : s \in ShapesOf(1, 3, 1..2), t \in UNION {[1..n -> -4..3] : n \in 1..3}}

AxisRange(d) == (-d)..(d - 1)
MoveAxisValid(x_) == UNION {{Case("moveaxis", s, [src |-> <<x>>, dst |-> <<y>>, int |-> TRUE]) : x \in AxisRange(Len(s)), y \in AxisRange(Len(s))}
                        \cup {Case("moveaxis", s, [src |-> <<x1, x2>>, dst |-> <<y1, y2>>, int |-> FALSE]) :
                                 x1 \in 0..(Len(s) - 1), x2 \in AxisRange(Len(s)), y1 \in 0..(Len(s) - 1), y2 \in IF Len(s) <= 3 THEN AxisRange(Len(s)) ELSE {}}
                        : s \in ShapesOf(1, D, 1..E)}
SwapAxesAll(x_) == UNION {{Case("swapaxes", s, [a1 |-> x, a2 |-> y]) : x \in AxisRange(Len(s)), y \in AxisRange(Len(s))} : s \in ShapesOf(1, D, 1..E)}
ExpandDimsAll(x_) == UNION {{Case("expand_dims", s, [axis |-> <<x>>, int |-> TRUE]) : x \in (-(Len(s) + 2))..(Len(s) + 1)}
                        \cup {Case("expand_dims", s, [axis |-> <<x, y>>, int |-> FALSE]) : x \in (-(Len(s) + 2))..(Len(s) + 1), y \in (-(Len(s) + 2))..(Len(s) + 1)}
                        : s \in ShapesOf(0, Min2(D, 3), 1..E)}
SqueezeAll(x_) == {Case("squeeze", s, [none |-> TRUE]) : s \in Src(0)}
FlattenAll(x_) == {Case("flatten", s, [none |-> TRUE]) : s \in Src(0)}
AtLeastAll(x_) == {Case("atleast_nd", s, [nd |-> n]) : s \in Src(0), n \in 0..(D + 1)}
FlipAll(x_) == UNION {{Case("flip", s, [axis |-> <<>>, int |-> FALSE])}
                  \cup {Case("flip", s, [axis |-> <<<<x>>>>, int |-> TRUE]) : x \in AxisRange(Len(s))}
                  \cup {Case("flip", s, [axis |-> <<<<x, y>>>>, int |-> FALSE]) : x \in AxisRange(Len(s)), y \in AxisRange(Len(s))}
                  : s \in ShapesOf(1, D, 1..E)}

Family(f) == CASE f = "reshape" -> ReshapeValid(0) \cup ReshapeAny(0)
               [] f = "transpose" -> TransposeValid(0) \cup TransposeAny(0)
               [] f = "moveaxis" -> MoveAxisValid(0) \cup SwapAxesAll(0)
               [] f = "misc" -> ExpandDimsAll(0) \cup SqueezeAll(0) \cup FlattenAll(0) \cup AtLeastAll(0) \cup FlipAll(0)
ASSUME ndJsonSerialize(IOEnv.OUT, SetToSeq(Family(IOEnv.FAM)))
VARIABLE z
GInit == z = 0
GNext == UNCHANGED z
=================================================================================
