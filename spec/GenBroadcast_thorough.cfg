CONSTANTS D = 4 E = 4 D3 = 3 E3 = 3
INIT GInit
NEXT GNext
