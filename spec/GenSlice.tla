-------------------------------- MODULE GenSlice --------------------------------
(* Case tables for C05: the per-axis exhaustive family (1-d arrays) and a        *)
(* multi-axis family over a menu of parts with the ellipsis in every position.   *)
EXTENDS Slice, Json, IOUtils, SequencesExt, TLC
CONSTANTS N, B, D, E
PerSrc(S, F(_)) == LET ss == SetToSeq(S) IN FlattenSeq([i \in DOMAIN ss |-> SetToSeq(F(ss[i]))])
Opt(S) == {<<>>} \cup {<<v>> : v \in S}
Case(s, parts) == [op |-> "slice", shapes |-> <<s>>, args |-> [parts |-> parts]]
Sl(a, b, c) == [k |-> "s", start |-> a, stop |-> b, step |-> c]
Axis(n) == {Case(<<n>>, <<Sl(a, b, c)>>) : a \in Opt((-(n + B))..(n + B)), b \in Opt((-(n + B))..(n + B)), c \in Opt((-3..3) \ {0})}
        \cup {Case(<<n>>, <<[k |-> "i", i |-> v]>>) : v \in (-(n + 1))..n}
Menu == {[k |-> "i", i |-> v] : v \in {-1, 0, 1}} \cup {[k |-> "e"]}
        \cup {Sl(<<>>, <<>>, <<>>), Sl(<<>>, <<>>, <<-1>>), Sl(<<>>, <<>>, <<2>>), Sl(<<1>>, <<2>>, <<1>>), Sl(<<0>>, <<-1>>, <<1>>), Sl(<<-1>>, <<0>>, <<-1>>), Sl(<<-2>>, <<2>>, <<1>>)}
Multi(s) == {Case(s, ps) : ps \in UNION {[1..m -> Menu] : m \in 1..Min2(Len(s) + 1, 3)}}
Family(f) == CASE f = "axis" -> PerSrc(1..N, Axis)
               [] f = "multi" -> PerSrc(ShapesOf(1, D, 2..E), Multi)
ASSUME ndJsonSerialize(IOEnv.OUT, Family(IOEnv.FAM))
VARIABLE z
GInit == z = 0
GNext == UNCHANGED z
=================================================================================
