-------------------------------- MODULE GenSlice --------------------------------
(* Case tables for C05: the per-axis exhaustive family (1-d arrays) and a        *)
(* multi-axis family over a menu of parts with the ellipsis in every position.   *)
EXTENDS Slice, Json, IOUtils, SequencesExt, TLC
CONSTANTS N, B, D, E, BIG
PerSrc(S, F(_)) == LET ss == SetToSeq(S) IN FlattenSeq([i \in DOMAIN ss |-> SetToSeq(F(ss[i]))])
Opt(S) == {<<>>} \cup {<<v>> : v \in S}
Case(s, parts) == [op |-> "slice", shapes |-> <<s>>, args |-> [parts |-> parts]]
Sl(a, b, c) == [k |-> "s", start |-> a, stop |-> b, step |-> c]
Axis(n) == {Case(<<n>>, <<Sl(a, b, c)>>) : a \in Opt((-(n + B))..(n + B)), b \in Opt((-(n + B))..(n + B)), c \in Opt((-3..3) \ {0})}
        \cup {Case(<<n>>, <<[k |-> "i", i |-> v]>>) : v \in (-(n + 1))..n}
Menu == {[k |-> "i", i |-> v] : v \in {-1, 0, 1}} \cup {[k |-> "e"]}
        \cup {Sl(<<>>, <<>>, <<>>), Sl(<<>>, <<>>, <<-1>>), Sl(<<>>, <<>>, <<2>>), Sl(<<1>>, <<2>>, <<1>>), Sl(<<0>>, <<-1>>, <<1>>), Sl(<<-1>>, <<0>>, <<-1>>), Sl(<<-2>>, <<2>>, <<1>>)}
Multi(s) == {Case(s, ps) : ps \in UNION {[1..m -> Menu] : m \in 1..Min2(Len(s) + 1, 3)}}
\* index-math scope: big extents, bounds around 0, n/2, n of either sign; "at" lists the first, middle and last result index
Around(m) == UNION {{c - B, c - 1, c, c + 1, c + B} : c \in {0, m \div 2, m}}
BigBounds(m) == Around(m) \cup {-x : x \in Around(m)}
AtOf(shape, parts) == LET r == SliceShape(shape, parts) IN
    IF \E q \in 1..Len(r) : r[q] = 0 THEN <<>>
    ELSE <<[q \in 1..Len(r) |-> 0], [q \in 1..Len(r) |-> r[q] \div 2], [q \in 1..Len(r) |-> r[q] - 1]>>
ICase(s, parts) == [op |-> "slice_index", shapes |-> <<s>>, args |-> [parts |-> parts, at |-> AtOf(s, parts)]]
BigAxis(n) == {ICase(<<n>>, <<Sl(a, b, c)>>) : a \in Opt(BigBounds(n)), b \in Opt(BigBounds(n)), c \in Opt((-3..3) \ {0})}
BigMenu(n) == {[k |-> "i", i |-> -1], [k |-> "i", i |-> 1], [k |-> "e"], Sl(<<>>, <<>>, <<>>), Sl(<<>>, <<>>, <<-1>>), Sl(<<>>, <<>>, <<3>>),
               Sl(<<1>>, <<-1>>, <<2>>), Sl(<<-2>>, <<0>>, <<-3>>)}
BigMulti(n) == UNION {{ICase(s, ps) : ps \in {x \in UNION {[1..m -> BigMenu(n)] : m \in 1..3} : SpecOk(s, x)}} : s \in {<<n, 2>>, <<2, n>>, <<2, n, 3>>}}
Family(f) == CASE f = "axis" -> PerSrc(1..N, Axis)
               [] f = "multi" -> PerSrc(ShapesOf(1, D, 2..E), Multi)
               [] f = "bigaxis" -> PerSrc(BIG, BigAxis)
               [] f = "bigmulti" -> PerSrc(BIG, BigMulti)
ASSUME ndJsonSerialize(IOEnv.OUT, Family(IOEnv.FAM))
VARIABLE z
GInit == z = 0
GNext == UNCHANGED z
=================================================================================
