CONSTANTS Kind = "maybe_vec" Vals = {1, 2} MaxHist = 1000
SPECIFICATION TraceSpec
POSTCONDITION TraceAccepted
CHECK_DEADLOCK FALSE
