CONSTANTS Kind = "vector" Cap = 3 Vals = {1, 2} NObj = 2 MaxHist = 1000
SPECIFICATION TraceSpec
INVARIANT TraceInv
POSTCONDITION TraceAccepted
CHECK_DEADLOCK FALSE
