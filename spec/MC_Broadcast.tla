------------------------------ MODULE MC_Broadcast ------------------------------
(* Laws of broadcasting checked by TLC: a state is a pair (or triple) of shapes. *)
EXTENDS Broadcast, TLC
CONSTANTS D, E, D3, E3
VARIABLES a, b, c, mode
vars == <<a, b, c, mode>>
S2 == ShapesOf(0, D, 1..E)
S3 == ShapesOf(0, D3, 1..E3)
Init == \/ (mode = "pair" /\ a \in S2 /\ b \in S2 /\ c = <<>>)
        \/ (mode = "triple" /\ a \in S3 /\ b \in S3 /\ c \in S3)
Next == UNCHANGED vars
Spec == Init /\ [][Next]_vars

Pair == mode = "pair"
LawCriterion == Pair => (BShape(a, b)[1] <=> \A i \in 1..Max2(Len(a), Len(b)) : Compatible(FromRight(a, i), FromRight(b, i)))
LawCommutative == Pair => BShape(a, b) = BShape(b, a)
LawIdempotent == Pair => /\ BShape(a, a) = <<TRUE, a>>
                         /\ BShape(a, b)[1] => (BShape(a, BShape(a, b)[2]) = BShape(a, b) /\ BShape(BShape(a, b)[2], b) = BShape(a, b))
LawScalarNeutral == Pair => BShape(a, <<>>) = <<TRUE, a>> /\ BShape(<<>>, a) = <<TRUE, a>>
LawResultIsMax == Pair /\ BShape(a, b)[1] => LET r == BShape(a, b)[2] IN
    /\ Len(r) = Max2(Len(a), Len(b))
    /\ \A i \in 1..Len(r) : FromRight(r, i) = Max2(FromRight(a, i), FromRight(b, i))
LawBroadcastToResult == Pair /\ BShape(a, b)[1] => BroadcastToOk(a, BShape(a, b)[2]) /\ BroadcastToOk(b, BShape(a, b)[2])
LawBroadcastToElements == Pair /\ BroadcastToOk(a, b) /\ Prod(b) <= 64 =>
    LET A == Leaf(a, 0)  r == BroadcastTo(A, b) IN
    /\ r.ok /\ r.shape = b
    /\ SeqToSet(r.elems) = SeqToSet(A.elems)           \* every source element appears, nothing else
    /\ (a = b => r = A)
LawImplRefinesRef == Pair => ImplBShape(a, b) = BShape(a, b)
LawAssociative == mode = "triple" =>
    LET l == IF BShape(a, b)[1] THEN BShape(BShape(a, b)[2], c) ELSE <<FALSE, <<>>>>
        r == IF BShape(b, c)[1] THEN BShape(a, BShape(b, c)[2]) ELSE <<FALSE, <<>>>>
    IN /\ l = r
       /\ BShapeN(<<a, b, c>>) = l
       /\ BShapeN(<<c, a, b>>) = l /\ BShapeN(<<b, c, a>>) = l
       /\ (l[1] <=> BShapeNOk(<<a, b, c>>))
=================================================================================
