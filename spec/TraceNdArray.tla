------------------------------ MODULE TraceNdArray ------------------------------
(* Trace validation for C20: after every action of a history the projection of   *)
(* the real array object and of its copy (return value, shape, dimension, size,  *)
(* every element by logical index, buffer = permutation of the elements, strides)*)
(* must be the state of the NdArray machine.                                      *)
EXTENDS MC_NdArray

TraceLog == ndJsonDeserialize(IOEnv.TRACE)
VARIABLES l, bad, layout
tvars == <<vars, l, bad, layout>>
Ev == TraceLog[l]
Note(why, exp) == Append(bad, [l |-> l, id |-> Ev.id, why |-> why, expect |-> exp])
ExpStrides(s, lay) == IF lay = "F" THEN ColStrides(s) ELSE Strides(s)
\* what the projection of one object must be
ObjOk(p, o, lay) == IF ~o.live THEN p.live = FALSE
               ELSE /\ p.live /\ p.shape = o.shape /\ p.dim = Len(o.shape) /\ p.size = Prod(o.shape)
                    /\ p.elems = o.elems /\ p.perm = TRUE
                    \* strides() always reports row-major strides of the current shape; the layout functor holds the strides used for addressing
                    /\ p.strides = Strides(o.shape) /\ p.ostrides = ExpStrides(o.shape, lay)
\* the array a cast returned must be the observation of the machine
ObsOk == obs' = <<>> \/ ("obs" \in DOMAIN Ev /\ Ev.obs.shape = obs'.shape /\ Ev.obs.elems = obs'.elems)
Expected == [obs |-> obs', obj |-> [shape |-> obj'.shape, elems |-> obj'.elems], cpy |-> [live |-> cpy'.live, shape |-> cpy'.shape, elems |-> cpy'.elems], ret |-> ret']

TInit == Init /\ l = 1 /\ bad = <<>> /\ layout = "C"
TBegin == /\ l <= Len(TraceLog) /\ Ev.e = "begin"
          /\ obj' = [live |-> TRUE, shape |-> KindDesc.init, elems |-> Fresh(KindDesc.init, 0)] /\ cpy' = Dead /\ hist' = <<>> /\ ret' = TRUE /\ obs' = <<>>
          /\ layout' = Ev.layout
          /\ bad' = IF Ev.ret = TRUE /\ ObjOk(Ev.proj.obj, obj', Ev.layout) /\ ObjOk(Ev.proj.cpy, cpy', Ev.layout) THEN bad ELSE Note("initial resize/fill", Expected)
          /\ l' = l + 1
Act(a) == CASE a.op = "resize" -> Resize(a.shape)
            [] a.op = "write" -> Write(a.k)
            [] a.op = "copy" -> CopyC
            [] a.op = "assign" -> Assign
            [] a.op = "assign_back" -> AssignBack
            [] a.op = "write_copy" -> WriteCopy(a.k)
            [] a.op = "drop_copy" -> DropCopy
            [] a.op = "cast_dtype" -> CastDtype(a.t)
            [] a.op = "cast_kind" -> CastKind(a.k)
TStep == /\ l <= Len(TraceLog) /\ Ev.e = "step"
         /\ IF ENABLED Act(Ev.act)
            THEN /\ Act(Ev.act)
                 /\ bad' = IF Ev.ret = ret' /\ ObjOk(Ev.proj.obj, obj', layout) /\ ObjOk(Ev.proj.cpy, cpy', layout) /\ ObsOk THEN bad ELSE Note("state after " \o Ev.act.op, Expected)
            ELSE /\ UNCHANGED vars /\ bad' = Note("action not enabled in the specification", [none |-> TRUE])
         /\ UNCHANGED layout /\ l' = l + 1
TCrash == /\ l <= Len(TraceLog) /\ Ev.e = "crash"
          /\ bad' = Note("crash", [none |-> TRUE]) /\ UNCHANGED <<vars, layout>> /\ l' = l + 1
TFinish == /\ l = Len(TraceLog) + 1 /\ ndJsonSerialize(IOEnv.OUT, bad) /\ l' = l + 1 /\ UNCHANGED <<vars, bad, layout>>
TNext == TBegin \/ TStep \/ TCrash \/ TFinish
TraceSpec == TInit /\ [][TNext]_tvars
TraceAccepted == TLCGet("stats").diameter = Len(TraceLog) + 2
=================================================================================
