------------------------------- MODULE MC_Compare -------------------------------
(* Laws of the comparison oracles: reflexive, symmetric, shape-aware.            *)
EXTENDS Compare, TLC
CONSTANTS D, E
VARIABLES a, b, k
vars == <<a, b, k>>
S == ShapesOf(1, D, 1..E)
Init == a \in S /\ b \in S /\ k \in 0..(E ^ D)
Next == UNCHANGED vars
Spec == Init /\ [][Next]_vars
Nd(s, bump) == [t |-> "nd", shape |-> s, elems |-> [p \in 1..Prod(s) |-> IF p = bump THEN p + 100 ELSE p]]
X == Nd(a, 0)
Y == Nd(b, k)
LawReflexive == IsEqual(X, X) /\ IsClose(X, X, 1)
LawSymmetric == IsEqual(X, Y) = IsEqual(Y, X) /\ IsClose(X, Y, 2) = IsClose(Y, X, 2)
LawShapeAware == a # b => ~IsEqual(X, Y) /\ ~IsClose(X, Y, 1000)
LawElementAware == (a = b /\ k >= 1 /\ k <= Prod(b)) => ~IsEqual(X, Y) /\ ~IsClose(X, Y, 100) /\ IsClose(X, Y, 101)
LawSameIsEqual == (a = b /\ (k = 0 \/ k > Prod(b))) => IsEqual(X, Y)
LawMaybe == LET n == [t |-> "maybe", has |-> FALSE, val |-> X]  j == [t |-> "maybe", has |-> TRUE, val |-> X] IN
    IsEqual(n, n) /\ ~IsEqual(n, j) /\ ~IsEqual(j, n) /\ IsEqual(j, j)
=================================================================================
