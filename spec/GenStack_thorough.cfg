CONSTANTS D = 3
INIT GInit
NEXT GNext
