--------------------------------- MODULE NdArray ---------------------------------
(* C20: an array object (any ndarray_t kind, the legacy classes) and a copy of it *)
(* as a state machine over resize / write / copy / assign / cast.  A kind is      *)
(* described                                                                      *)
(* by what it can hold: dimension rule, element-count rule, constant shape and    *)
(* per-axis clipped bounds.  Layer R: a refused resize returns false and changes  *)
(* nothing; an accepted one makes shape, size and strides consistent; a write     *)
(* changes exactly one element of exactly one object.                              *)
EXTENDS Base, TLC

CONSTANTS KindDesc,    \* [dim |-> <<"any"|"fixed"|"bounded", n>>, size |-> <<"any"|"fixed"|"bounded", n>>, const |-> <<>> or <<shape>>, clip |-> <<>> or <<maxshape>>, init |-> shape]
          Shapes,      \* candidate shapes for resize
          MaxHist

VARIABLES obj, cpy, hist, ret,
          obs          \* value observed by the last action: <<>> or the array a cast produced ([shape, elems])
vars == <<obj, cpy, hist, ret, obs>>
Dead == [live |-> FALSE, shape |-> <<>>, elems |-> <<>>]

Accepts(s) ==
    /\ \A i \in 1..Len(s) : s[i] >= 1
    /\ CASE KindDesc.dim[1] = "any" -> TRUE
         [] KindDesc.dim[1] = "fixed" -> Len(s) = KindDesc.dim[2]
         [] KindDesc.dim[1] = "bounded" -> Len(s) <= KindDesc.dim[2]
    /\ CASE KindDesc.size[1] = "any" -> TRUE
         [] KindDesc.size[1] = "fixed" -> Prod(s) = KindDesc.size[2]
         [] KindDesc.size[1] = "bounded" -> Prod(s) <= KindDesc.size[2]
    /\ (KindDesc.const # <<>> => s = KindDesc.const[1])
    /\ (KindDesc.clip # <<>> => Len(s) = Len(KindDesc.clip[1]) /\ \A i \in 1..Len(s) : s[i] <= KindDesc.clip[1][i])

\* after an accepted resize the harness fills the array: element at C-order position p holds 100 * step + p
Fresh(s, step) == [p \in 1..Prod(s) |-> 100 * step + p - 1]

Init == /\ obj = [live |-> TRUE, shape |-> KindDesc.init, elems |-> Fresh(KindDesc.init, 0)]
        /\ cpy = Dead /\ hist = <<>> /\ ret = TRUE /\ obs = <<>>
Step == Len(hist) + 1
Resize(s) == /\ hist' = Append(hist, [op |-> "resize", shape |-> s])
             /\ IF Accepts(s) THEN obj' = [obj EXCEPT !.shape = s, !.elems = Fresh(s, Step)] /\ ret' = TRUE
                ELSE obj' = obj /\ ret' = FALSE
             /\ UNCHANGED cpy /\ obs' = <<>>
Write(k) == /\ k < Prod(obj.shape)
            /\ obj' = [obj EXCEPT !.elems[k + 1] = 5000 + Step]
            /\ hist' = Append(hist, [op |-> "write", k |-> k, v |-> 5000 + Step]) /\ ret' = TRUE /\ UNCHANGED cpy /\ obs' = <<>>
CopyC == /\ ~cpy.live /\ cpy' = obj /\ hist' = Append(hist, [op |-> "copy"]) /\ ret' = TRUE /\ UNCHANGED obj /\ obs' = <<>>
Assign == /\ cpy.live /\ cpy' = obj /\ hist' = Append(hist, [op |-> "assign"]) /\ ret' = TRUE /\ UNCHANGED obj /\ obs' = <<>>
AssignBack == /\ cpy.live /\ obj' = cpy /\ hist' = Append(hist, [op |-> "assign_back"]) /\ ret' = TRUE /\ UNCHANGED cpy /\ obs' = <<>>
WriteCopy(k) == /\ cpy.live /\ k < Prod(cpy.shape)
                /\ cpy' = [cpy EXCEPT !.elems[k + 1] = 7000 + Step]
                /\ hist' = Append(hist, [op |-> "write_copy", k |-> k, v |-> 7000 + Step]) /\ ret' = TRUE /\ UNCHANGED obj /\ obs' = <<>>
DropCopy == /\ cpy.live /\ cpy' = Dead /\ hist' = Append(hist, [op |-> "drop_copy"]) /\ ret' = TRUE /\ UNCHANGED obj /\ obs' = <<>>
\* casts build a new array and leave the object alone: same shape, every value converted to the target element type
DTypes == {"f64", "f32", "i8", "u8", "i16"}
Conv(v, t) == CASE t = "i8" -> ((v + 128) % 256) - 128
                [] t = "u8" -> v % 256
                [] t = "i16" -> ((v + 32768) % 65536) - 32768
                [] OTHER -> v                                    \* f32 / f64 hold every value of the scope exactly
CastDtype(t) == /\ hist' = Append(hist, [op |-> "cast_dtype", t |-> t]) /\ ret' = TRUE
                /\ obs' = [shape |-> obj.shape, elems |-> [p \in 1..Len(obj.elems) |-> Conv(obj.elems[p], t)]]
                /\ UNCHANGED <<obj, cpy>>
CastKinds == {"dynamic", "nd_dyn"}      \* targets every source kind can be cast to (the ndarray kind tags need a compile-time shape or dimension: C09 matrix)
CastKind(k) == /\ hist' = Append(hist, [op |-> "cast_kind", k |-> k]) /\ ret' = TRUE
               /\ obs' = [shape |-> obj.shape, elems |-> obj.elems]
               /\ UNCHANGED <<obj, cpy>>
Next == /\ Len(hist) < MaxHist
        /\ \/ \E s \in Shapes : Resize(s)
           \/ \E k \in {0, 1, Prod(obj.shape) - 1} : Write(k)
           \/ CopyC \/ Assign \/ AssignBack \/ DropCopy
           \/ \E k \in {0, Prod(cpy.shape) - 1} : WriteCopy(k)
           \/ \E t \in DTypes : CastDtype(t)
           \/ \E k \in CastKinds : CastKind(k)
Spec == Init /\ [][Next]_vars
View == <<obj.shape, cpy.live, cpy.shape, obj.elems = cpy.elems>>

\* design-level invariants
Consistent(o) == o.live => Len(o.elems) = Prod(o.shape) /\ Accepts(o.shape)
Inv == Consistent(obj) /\ Consistent(cpy)
RefusedChangesNothing == [][(hist' # hist /\ ~ret') => obj' = obj /\ cpy' = cpy]_vars
CastChangesNothing == [][(hist' # hist /\ hist'[Len(hist')].op \in {"cast_dtype", "cast_kind"}) => (obj' = obj /\ cpy' = cpy /\ obs'.shape = obj.shape /\ Len(obs'.elems) = Prod(obj.shape))]_vars
WriteTouchesOne == [][(hist' # hist /\ hist'[Len(hist')].op = "write") =>
                        Cardinality({p \in 1..Len(obj.elems) : obj'.elems[p] # obj.elems[p]}) <= 1 /\ cpy' = cpy]_vars
=================================================================================
