"""./verif setup: warms the TLC-generated case tables (depends on the specification only; builds nothing from /repo)."""
import sys, os
import vlib


def main():
    ok = True
    try:
        vlib.tlc_generate("GenLayout", "GenLayout", env={"SCOPE": "quick"}, key_extra="quick")
        from checks import c03, c06
        c03.load_cases("quick")
        c06.load_cases("quick")
        for f in ("axis", "multi", "bigaxis", "bigmulti"):
            vlib.tlc_generate("GenSlice", "GenSlice_quick", env={"FAM": f}, key_extra=f)
        vlib.tlc_generate("GenStack", "GenStack_quick")
        vlib.tlc_generate("GenBroadcast", "GenBroadcast_quick", env={"FAM": "pairs"}, key_extra="pairs", timeout=1400)
        vlib.tlc_generate("GenViews", "GenViews_quick", env={"FAM": "reshape"}, key_extra="reshape", timeout=1400)
    except vlib.Inconclusive as e:
        print("setup: generation failed:", str(e)[:2000])
        ok = False
    print("setup: done")
    return 0 if ok else 1
